"""C17 - an instance lives exactly as long as its timeout since last access allows.

Oracle: a shadow table id -> (last access, timeout, externalised?) advanced by
the harness under a controlled clock.  After every sweep trigger (metrics,
full-metrics, creation, access to another instance) every instance whose full
timeout has elapsed must be gone (absent from full-metrics, refused, destroy()
called exactly once) and every other instance must still be served.  A direct
access to an expired but not yet swept instance is unspecified and only
observed.  Cross-check: a few timelines in real time without the clock patch."""
import datetime as dt
import json
import random
import tempfile
import time as _time

ID = "C17"
LEVEL = "exploration"
TECHNIQUE = "shadow timeout table vs the live server under a controlled clock; destroy() call counter; real-time cross-check"
RULE = ("seeded timelines over 1-4 instances: create with every timeout unit alone and in combinations, every instance-scoped request kind, "
        "keep-alive, metrics, full-metrics, whole-server /save-state (not an access), creation of another instance, stop-instance, clock advances to timeout-eps / exactly timeout / "
        "timeout+eps of a chosen instance; with and without a FileAdapter (expired externalised instances must be restored by the next request "
        "to them, keep-alive included). Plus designed timelines: a 5-second instance next to a 1-hour instance expires, is restored by a request and expires again (5 sweep triggers x 2 creation orders x 3 restoring requests). distinct_nontrivial = distinct (event kind at expiry boundary, boundary class, adapter) combinations "
        "in which an instance was within eps of its deadline when a sweep trigger happened.")
ASSUMPTIONS = ["decided under the substituted clock (datetime.now is the only time source of the instance manager); real time is cross-checked on short timelines only",
               "a direct access to an expired but not yet swept instance is unspecified: the shadow adopts what the server did"]
REQUIRED = {"slow_factory_checks": 10, "zero_timeout_instances": 20, "designed_timelines": 20, "whole_server_saves": 10, "events": 2000, "sweep_checks": 1000, "boundary_hits": 100, "expiries_observed": 100, "restores_observed": 20}
BUDGET_S = {"quick": 110, "thorough": 1500}

UNITS = ["weeks", "days", "hours", "minutes", "seconds", "milliseconds", "microseconds"]
ACCESS = ["run-step", "run-step-nobody", "run-steps", "session-results", "flat-session-results", "keep-alive", "begin-session", "end-begin",
          "stream-open", "lock-direct"]   # stream-open: a stream-steps response left unread (the session lock stays held); lock-direct: bptk.lock() on the live object


def gen_cases(tier, seed):
    n = 150 if tier == "quick" else 6000
    cases = [dict(kind="clock", seed=seed * 7907 + i, adapter=(i % 3 == 0)) for i in range(n)]
    for i in range(2 if tier == "quick" else 4):
        cases.append(dict(kind="realtime", seed=seed * 13 + i, adapter=bool(i % 2)))
    # designed timelines: a short-lived instance next to a long-lived one expires, is restored by a request, and expires AGAIN
    for trigger in ("metrics", "full-metrics", "create", "other-access", "save-state"):
        for order in ("long-first", "short-first"):
            for restorer in ("keep-alive", "run-step", "session-results"):
                cases.append(dict(kind="designed", adapter=True, trigger=trigger, order=order, restorer=restorer, seed=seed))
    # timeouts that add up to zero, in several spellings, single and batch: such an instance has been idle for its whole timeout the moment it exists
    for trigger in ("metrics", "full-metrics", "create", "other-access"):
        for batch in (False, True):
            cases.append(dict(kind="zero", adapter=False, trigger=trigger, batch=batch, seed=seed))
    for build in (2, 4, 9):
        for batch in (False, True):
            cases.append(dict(kind="slow-factory", adapter=False, build=build, batch=batch, seed=seed))
    return cases


def run_slow_factory(case, counters):
    """Building the engine of a new instance takes time: the instance's timeout counts from the moment it exists (the creation request
    returns), not from the moment the request arrived."""
    run = Run(case, counters)
    trace = []
    try:
        w = run.create({"minutes": 10})
        if w:
            return w, trace, run
        run.factory_delay = case["build"]
        r = run.c.post("/start-instances", json={"instances": 1, "timeout": {"seconds": 10}}) if case["batch"] else run.c.post("/start-instance", json={"timeout": {"seconds": 10}})
        run.factory_delay = 0
        js = json.loads(r.get_data(as_text=True))
        iid = js["instance_uuids"][0] if case["batch"] else js["instance_uuid"]
        created = run.now()
        trace.append(("create (engine takes %ds to build)" % case["build"], r.status_code))
        for (adv, must_live) in ((10 - case["build"] + 1, True), (case["build"], False)):
            run.clock.advance(seconds=adv)
            trace.append(("advance %ds" % adv, "metrics"))
            run.c.get("/metrics")
            live = iid in run.app._instance_manager._instances
            counters["slow_factory_checks"] = counters.get("slow_factory_checks", 0) + 1
            if live != must_live:
                return dict(kind="removed-too-early" if must_live else "still-present-after-sweep", instance="built slowly", build_seconds=case["build"], timeout="0:00:10",
                            idle=str(run.now() - created), trigger="metrics"), trace, run
        return None, trace, run
    finally:
        run.close()


ZERO_SPECS = [{"seconds": 0}, {}, {"minutes": 1, "seconds": -60}, {u: 0 for u in UNITS}, {"hours": 0.0}]


def run_zero(case, counters):
    run = Run(case, counters)
    trace = []
    try:
        w = run.create({"minutes": 10})
        trace.append(("create", "10 min"))
        if w:
            return w, trace, run
        long_id = run.all_ids[0]
        zero, objs = [], {}
        for spec in ZERO_SPECS:
            if case["batch"]:
                r = run.c.post("/start-instances", json={"instances": 2, "timeout": spec})
                ids = json.loads(r.get_data(as_text=True)).get("instance_uuids", []) if r.status_code == 200 else []
            else:
                r = run.c.post("/start-instance", json={"timeout": spec})
                ids = [json.loads(r.get_data(as_text=True))["instance_uuid"]] if r.status_code == 200 else []
            trace.append(("create-zero", json.dumps(spec), r.status_code))
            if r.status_code != 200:
                continue         # (a refusal is loud and creates nothing)
            for i in ids:
                zero.append((i, spec))
                o = run.app._instance_manager._instances.get(i)
                if o is not None:
                    objs[i] = o["instance"]
        if not zero:
            return dict(kind="harness", msg="no zero-timeout instance was accepted"), trace, run
        run.clock.advance(seconds=1)
        t = case["trigger"]
        trace.append(("advance 1s", t))
        if t in ("metrics", "full-metrics"):
            run.c.get("/" + t)
        elif t == "create":
            w = run.create({"hours": 2})
            if w:
                return w, trace, run
        else:
            w = run.access(long_id, "keep-alive")
            if w:
                return w, trace, run
        js = json.loads(run.c.get("/full-metrics").get_data(as_text=True))
        listed = set(k for k in js if k not in ("instanceCount", "threadCount"))
        for (i, spec) in zero:
            counters["zero_timeout_instances"] = counters.get("zero_timeout_instances", 0) + 1
            if i in listed or i in run.app._instance_manager._instances:
                return dict(kind="still-present-after-sweep", timeout=spec, trigger=t, instance="zero-timeout", count=js["instanceCount"]), trace, run
            if i in objs and run.destroyed.get(id(objs[i]), 0) != 1:
                return dict(kind="destroy-count", timeout=spec, destroy_calls=run.destroyed.get(id(objs[i]), 0), trigger=t), trace, run
            r = run.c.post("/%s/keep-alive" % i)
            if r.status_code < 400:
                return dict(kind="served-after-expiry", timeout=spec, request="keep-alive", status=r.status_code), trace, run
        if js["instanceCount"] != len(run.shadow):
            return dict(kind="full-metrics-content", count=js["instanceCount"], expected=len(run.shadow)), trace, run
        return None, trace, run
    finally:
        run.close()


def rand_timeout(rng):
    r = rng.random()
    if r < 0.5:
        u = rng.choice(UNITS)
        v = {"weeks": 1, "days": rng.randint(1, 3), "hours": rng.randint(1, 30), "minutes": rng.randint(1, 90), "seconds": rng.randint(1, 200),
             "milliseconds": rng.randint(1, 5000), "microseconds": rng.randint(1, 999999)}[u]
        return {u: v}
    ks = rng.sample(UNITS, rng.randint(2, 4))
    return {u: rng.randint(1, 50) for u in ks}


class Run:
    def __init__(self, case, counters, realtime=False):
        from vlib import srv
        self.srv = srv
        self.counters = counters
        self.realtime = realtime
        self.clock = None if realtime else srv.Clock().install()
        self.tmp = tempfile.mkdtemp(prefix="c17_", dir=".") if case["adapter"] else None
        inner_factory = srv.bptk_factory(stop=200.0)
        self.factory_delay = 0          # seconds of (controlled) time that building an engine takes

        def factory():
            if self.factory_delay and self.clock is not None:
                self.clock.advance(seconds=self.factory_delay)
            return inner_factory()
        self.app = srv.make_server(factory, state_dir=self.tmp)
        self.c = self.app.test_client()
        self.shadow = {}      # id -> dict(last, timeout(timedelta), ext(bool), obj)
        self.all_ids = []
        self.destroyed = {}
        self.objs = {}
        from BPTK_Py import bptk
        self._orig_destroy = bptk.destroy
        run = self

        self._keep = []   # strong references: id() of a collected object could be reused by a restored instance

        def destroy(b):
            run._keep.append(b)
            run.destroyed[id(b)] = run.destroyed.get(id(b), 0) + 1
            return run._orig_destroy(b)
        bptk.destroy = destroy
        self.nts = []
        self.ext_gone = {}
        self.open_streams = []

    def close(self):
        from BPTK_Py import bptk
        bptk.destroy = self._orig_destroy
        for r in self.open_streams:
            try:
                r.close()
            except Exception:
                pass
        self.srv.destroy_server(self.app)
        if self.clock:
            self.clock.uninstall()
        if self.tmp:
            import shutil
            shutil.rmtree(self.tmp, True)

    def now(self):
        return dt.datetime.now() if self.realtime else self.clock.now

    def body(self, kind):
        MG, SC, EQS = self.srv.MG, self.srv.SC, self.srv.EQS
        if kind in ("begin-session",):
            return "post", "begin-session", dict(scenario_managers=[MG], scenarios=[SC], equations=list(EQS))
        if kind == "run-step":
            return "post", "run-step", dict(settings={})
        if kind == "run-step-nobody":
            return "post", "run-step", None
        if kind == "run-steps":
            return "post", "run-steps", dict(numberSteps=2, settings={})
        if kind in ("session-results", "flat-session-results"):
            return "get", kind, None
        if kind == "keep-alive":
            return "post", "keep-alive", None
        raise KeyError(kind)

    def expired(self, i, now):
        s = self.shadow[i]
        return now >= s["last"] + s["timeout"]

    def sweep(self, now, except_id=None, what=""):
        """Shadow side of a sweep trigger + check against the live server."""
        gone = [i for i in self.shadow if i != except_id and self.expired(i, now)]
        for i in gone:
            s = self.shadow.pop(i)
            if s["ext"]:
                self.ext_gone[i] = s["timeout"]     # its state file survives: the next request to it must restore it
            self.counters["expiries_observed"] = self.counters.get("expiries_observed", 0) + 1
        live = set(self.app._instance_manager._instances.keys())
        self.counters["sweep_checks"] = self.counters.get("sweep_checks", 0) + 1
        for i in self.all_ids:
            if i in self.shadow and i not in live:
                s = self.shadow[i]
                return dict(kind="removed-too-early", instance=self.all_ids.index(i), trigger=what, now=str(now), last=str(s["last"]), timeout=str(s["timeout"]),
                            remaining=str(s["last"] + s["timeout"] - now))
            if i not in self.shadow and i in live:
                return dict(kind="still-present-after-sweep", instance=self.all_ids.index(i), trigger=what, now=str(now))
        for i in gone:
            n = self.destroyed.get(id(self.objs[i]), 0)
            if n != 1:
                return dict(kind="destroy-count", instance=self.all_ids.index(i), destroy_calls=n, trigger=what)
        return None

    def boundary(self, now, what):
        for i, s in self.shadow.items():
            d = abs((s["last"] + s["timeout"] - now).total_seconds())
            if d <= 0.002:
                self.counters["boundary_hits"] = self.counters.get("boundary_hits", 0) + 1
                cls = "at" if s["last"] + s["timeout"] == now else ("before" if now < s["last"] + s["timeout"] else "after")
                self.nts.append("%s|%s|%s" % (what, cls, bool(self.tmp)))

    def create(self, timeout):
        now = self.now()
        self.boundary(now, "create")
        r = self.c.post("/start-instance", json={"timeout": timeout})
        self.counters["events"] = self.counters.get("events", 0) + 1
        if r.status_code != 200:
            return dict(kind="create-failed", status=r.status_code)
        iid = json.loads(r.get_data(as_text=True))["instance_uuid"]
        w = self.sweep(now, what="create")
        if w:
            return w
        self.all_ids.append(iid)
        self.objs[iid] = self.app._instance_manager._instances[iid]["instance"]
        self.shadow[iid] = dict(last=now, timeout=dt.timedelta(**timeout), ext=False)
        return self.access(iid, "begin-session")

    def access(self, iid, kind):
        now = self.now()
        self.boundary(now, kind)
        self.counters["events"] = self.counters.get("events", 0) + 1
        if kind == "end-begin":
            w = self.access(iid, "begin-session")
            return w
        if kind == "lock-direct":
            # not a request: the live object's session lock is taken (as a streaming request in flight would hold it); time does not stop for it
            inst = self.app._instance_manager._instances.get(iid)
            if inst is not None:
                inst["instance"].lock()
                self.counters["locks_held"] = self.counters.get("locks_held", 0) + 1
            return self.no_sweep_check()
        if kind == "stream-open":
            resp = self.c.post("/%s/stream-steps" % iid, json=dict(numberSteps=3, settings={}), buffered=False)
            if resp.status_code >= 400:
                text = resp.get_data(as_text=True)
            else:
                text = ""
                self.open_streams.append(resp)
                self.counters["streams_left_open"] = self.counters.get("streams_left_open", 0) + 1
        else:
            method, url, body = self.body(kind)
            kw = {"json": body} if body is not None else {}
            resp = getattr(self.c, method)("/%s/%s" % (iid, url), **kw)
            text = resp.get_data(as_text=True)
        refused = resp.status_code >= 400 and "valid instance id" in text
        idx = self.all_ids.index(iid)
        if iid in self.shadow:
            s = self.shadow[iid]
            if not self.expired(iid, now):
                if refused:
                    return dict(kind="refused-while-alive", instance=idx, request=kind, now=str(now), last=str(s["last"]), timeout=str(s["timeout"]), status=resp.status_code)
                s["last"] = now
            else:
                # unspecified: adopt what the server did
                self.counters["unspecified_self_access"] = self.counters.get("unspecified_self_access", 0) + 1
                if refused:
                    self.shadow.pop(iid)
                else:
                    s["last"] = now
            if iid in self.shadow and self.tmp and kind in ("run-step", "run-step-nobody", "run-steps", "begin-session") and resp.status_code == 200:   # (an unread stream has not saved anything yet)
                self.shadow[iid]["ext"] = True
        else:
            ext = self.ext_gone.get(iid)
            if ext is not None:
                if refused or resp.status_code >= 500:
                    return dict(kind="externalised-not-restored", instance=idx, request=kind, status=resp.status_code, body=text[:160])
                self.counters["restores_observed"] = self.counters.get("restores_observed", 0) + 1
                self.shadow[iid] = dict(last=now, timeout=ext, ext=True)
                self.objs[iid] = self.app._instance_manager._instances[iid]["instance"]
                del self.ext_gone[iid]
            elif not refused and resp.status_code < 400:
                return dict(kind="served-after-expiry", instance=idx, request=kind, status=resp.status_code, body=text[:160])
            else:
                # a refused request to an id that does not exist is not an access: no sweep is due
                return self.no_sweep_check()
        return self.sweep_after(now, iid, kind)

    def no_sweep_check(self):
        live = set(self.app._instance_manager._instances.keys())
        for i in self.shadow:
            if i not in live:
                return dict(kind="removed-too-early", instance=self.all_ids.index(i), trigger="(refused request)")
        return None

    def sweep_after(self, now, iid, what):
        return self.sweep(now, except_id=iid, what=what)

    def metrics(self, full):
        now = self.now()
        self.boundary(now, "full-metrics" if full else "metrics")
        self.counters["events"] = self.counters.get("events", 0) + 1
        resp = self.c.get("/full-metrics" if full else "/metrics")
        w = self.sweep_after(now, None, "full-metrics" if full else "metrics")
        if w:
            return w
        if full:
            js = json.loads(resp.get_data(as_text=True))
            listed = set(k for k in js if k not in ("instanceCount", "threadCount"))
            if listed != set(self.shadow) or js["instanceCount"] != len(self.shadow):
                return dict(kind="full-metrics-content", listed=sorted(self.all_ids.index(i) for i in listed), expected=sorted(self.all_ids.index(i) for i in self.shadow), count=js["instanceCount"])
        return None

    def save_state(self):
        """GET /save-state (whole-server save): not an access to any instance - no timer restarts, nothing is swept or kept alive by it."""
        insts = self.app._instance_manager._instances
        if not self.tmp or not insts or any(v["instance"].session_state is None for v in insts.values()):
            return None          # (a whole-server save with a session-less instance answers 500 on this code base: not part of this property)
        self.counters["events"] = self.counters.get("events", 0) + 1
        r = self.c.get("/save-state")
        if r.status_code != 200:
            return dict(kind="save-state-failed", status=r.status_code, body=r.get_data(as_text=True)[:160])
        self.counters["whole_server_saves"] = self.counters.get("whole_server_saves", 0) + 1
        for iid in insts:
            if iid in self.shadow:
                self.shadow[iid]["ext"] = True
        return self.no_sweep_check()

    def stop(self, iid):
        self.counters["events"] = self.counters.get("events", 0) + 1
        self.c.post("/%s/stop-instance" % iid)
        self.shadow.pop(iid, None)
        self.ext_gone.pop(iid, None)
        # a stopped instance is refused afterwards
        r = self.c.post("/%s/keep-alive" % iid)
        if r.status_code < 400:
            return dict(kind="served-after-stop", instance=self.all_ids.index(iid))
        return None


def run_clock_case(case, counters):
    rng = random.Random(case["seed"])
    run = Run(case, counters)
    trace = []
    try:
        for _ in range(rng.randint(1, 2)):
            to = rand_timeout(rng)
            trace.append(("create", to))
            w = run.create(to)
            if w:
                return w, trace, run
        for step in range(rng.randint(8, 30)):
            r = rng.random()
            ids = run.all_ids
            if r < 0.35 and run.shadow:
                # move the clock to the deadline of some instance (minus eps / exactly / plus eps)
                target = rng.choice(sorted(run.shadow))
                s = run.shadow[target]
                deadline = s["last"] + s["timeout"]
                eps = rng.choice([dt.timedelta(microseconds=1), dt.timedelta(milliseconds=1), dt.timedelta(seconds=1)])
                where = rng.choice([-1, 0, 1])
                newnow = deadline + where * eps
                if newnow > run.clock.now:
                    run.clock.now = newnow
                    trace.append(("clock->deadline", ids.index(target), where))
            elif r < 0.45:
                run.clock.advance(seconds=rng.choice([0.5, 3, 60, 4000]))
                trace.append(("advance",))
            r = rng.random()
            if r < 0.12 and len(ids) < 4:
                to = rand_timeout(rng)
                trace.append(("create", to))
                w = run.create(to)
            elif r < 0.30:
                full = rng.random() < 0.6
                trace.append(("full-metrics" if full else "metrics",))
                w = run.metrics(full)
            elif r < 0.36 and run.shadow:
                iid = rng.choice(sorted(run.shadow))
                trace.append(("stop", ids.index(iid)))
                w = run.stop(iid)
            elif r < 0.46 and run.tmp:
                trace.append(("save-state",))
                w = run.save_state()
            else:
                iid = rng.choice(ids)
                kind = rng.choice(ACCESS)
                trace.append((kind, ids.index(iid)))
                w = run.access(iid, kind)
            if w:
                return w, trace, run
        return None, trace, run
    finally:
        run.close()


def run_realtime_case(case, counters):
    rng = random.Random(case["seed"])
    run = Run(case, counters, realtime=True)
    trace = []
    try:
        w = run.create({"seconds": 1, "milliseconds": 200})
        w = w or run.create({"seconds": 30})
        a, b = run.all_ids
        for (sleep, ev) in [(0.5, ("keep-alive", a)), (0.5, ("run-step", a)), (0.3, ("metrics", None)), (1.6, ("full-metrics", None)), (0.1, ("run-step", a)), (0.1, ("run-step", b))]:
            if w:
                break
            _time.sleep(sleep)
            trace.append((sleep, ev[0]))
            # real time: keep away from the deadline by construction (0.4 s margin), so the shadow is unambiguous
            if ev[1] is None:
                w = run.metrics(ev[0] == "full-metrics")
            else:
                w = run.access(ev[1], ev[0])
        return w, trace, run
    finally:
        run.close()


def run_designed(case, counters):
    run = Run(case, counters)
    trace = []
    try:
        def step(name, f, *a):
            trace.append((name,) + tuple(run.all_ids.index(x) if x in run.all_ids else x for x in a if not isinstance(x, dict)))
            return f(*a)
        specs = [{"hours": 1}, {"seconds": 5}] if case["order"] == "long-first" else [{"seconds": 5}, {"hours": 1}]
        for to in specs:
            w = step("create", run.create, to)
            if w:
                return w, trace, run
        long_id, short_id = (run.all_ids[0], run.all_ids[1]) if case["order"] == "long-first" else (run.all_ids[1], run.all_ids[0])
        for iid in (long_id, short_id):
            for kind in ("begin-session", "run-step"):
                w = step(kind, run.access, iid, kind)
                if w:
                    return w, trace, run

        def trigger():
            t = case["trigger"]
            if t in ("metrics", "full-metrics"):
                return step(t, run.metrics, t == "full-metrics")
            if t == "create":
                return step("create", run.create, {"hours": 2})
            if t == "save-state":
                return step("save-state", run.save_state) or step("metrics", run.metrics, False)
            return step("keep-alive", run.access, long_id, "keep-alive")
        for phase in (1, 2):
            run.clock.advance(seconds=6)           # past the short instance's deadline, far before the long one's
            trace.append(("advance 6s",))
            w = trigger()                          # ... so this sweep removes it (the shadow knows it is externalised)
            if w:
                return w, trace, run
            if phase == 1:
                w = step(case["restorer"], run.access, short_id, case["restorer"])     # restored from its state file, timer restarted
                if w:
                    return w, trace, run
        counters["designed_timelines"] = counters.get("designed_timelines", 0) + 1
        return None, trace, run
    finally:
        run.close()


def run_case(case):
    counters = {}
    if case["kind"] == "designed":
        w, trace, run = run_designed(case, counters)
    elif case["kind"] == "zero":
        w, trace, run = run_zero(case, counters)
    elif case["kind"] == "slow-factory":
        w, trace, run = run_slow_factory(case, counters)
    elif case["kind"] == "clock":
        w, trace, run = run_clock_case(case, counters)
    else:
        w, trace, run = run_realtime_case(case, counters)
        counters["realtime_timelines"] = 1
    if w is not None:
        return dict(verdict="violated", nt=run.nts, counters=counters, mech=w["kind"] + (":" + w.get("request", "") if w["kind"] == "externalised-not-restored" else ""),
                    witness=dict(first=w, trace=trace[-14:], case=case))
    return dict(verdict="held", nt=run.nts, counters=counters, sample=dict(case=case, trace=trace[:10]))
