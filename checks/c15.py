"""C15 - with a bearer token set, protected endpoints serve and change nothing without it.

Oracle: status class + equality of a server-side fingerprint (instances with
timestamps/timeouts/session state, scenario settings and memo sizes of every
bptk, external state directory) before and after each refused request, under a
controlled clock that advances between requests (so a 'touch' is visible).
Rules and methods are enumerated from the live app.url_map."""
import json
import os
import tempfile

ID = "C15"
LEVEL = "exploration"
TECHNIQUE = "exhaustive request enumeration from app.url_map with status + state-fingerprint oracle under a controlled clock"
RULE = ("every rule x method of the live url_map (HEAD included, automatic OPTIONS judged on 'serves nothing, changes nothing') x instance id in "
        "{live, dead, malformed, externalised, ids that begin like the public resources (metrics, healthy-1, full-metrics)} x body in {well-formed superset body, none} x 28 credential shapes (incl. the token with non-ASCII characters added, the token glued to a scheme-like prefix, the token of another server in the same process) x server state in "
        "{no instances, live session, locked session, externalised instance}; control group: the same requests with the exact token must not "
        "be refused by the decorator, and the identical request repeated straight after it with 4 credential shapes is refused again. distinct_nontrivial = distinct (rule, method, credential class) triples refused on a server state in "
        "which the same request with the token is served (2xx).")
ASSUMPTIONS = ["headers that contain the exact token as a whitespace-delimited word (e.g. 'Basic <token>', 'Bearer  <token>') are recorded, not judged: they do present the token",
               "'changes nothing' is decided on the enumerated fingerprint; the log file is outside it",
               "Flask test client, not a socket server"]
REQUIRED = {"parts_with_held_app_context": 8, "refused_after_authorised": 500, "requests_refused": 3000, "fingerprint_comparisons": 3000, "control_served": 10, "rules_enumerated": 15}
BUDGET_S = {"quick": 170, "thorough": 900}
TOKEN = "Tok3n-ab+c.DEF|alt"        # (characters that mean something to pattern languages are ordinary characters of a secret)
OTHER_TOKEN = "0ther-Server.t0ken"
PUBLIC = {"/", "/healthy", "/metrics", "/full-metrics"}
STATES = ["empty", "live", "locked", "external"]


def credentials():
    t = TOKEN
    return [
        ("absent", None), ("empty", ""), ("scheme-only", "Bearer"), ("scheme-space", "Bearer "), ("wrong", "Bearer wrong-token"),
        ("prefix", "Bearer " + t[:-2]), ("suffix", "Bearer " + t + "X"), ("case-lower", "Bearer " + t.lower()), ("case-upper", "Bearer " + t.upper()),
        ("token-first-wrong-second", t[:-1] + " " + t[:-1]), ("bare-wrong", t[:-1]), ("long", "Bearer " + "A" * 5000), ("latin1", "Bearer tök3n"),
        ("quoted", 'Bearer "' + t + '"'), ("comma", "Bearer " + t + ",x"), ("tab", "Bearer\t" + t + "x"),
        ("basic-b64", "Basic dXNlcjpwYXNz"), ("negotiate", "Negotiate " + t[::-1]),
        # the exact token glued to a scheme-like prefix without a blank; the token of ANOTHER server living in the same process
        ("colon", "Bearer:" + t), ("equals", "Bearer=" + t), ("underscore", "Bearer_" + t), ("seven-chars", "XXXXXXX" + t), ("glued", "Bearer" + t),
        ("other-servers-token", "Bearer " + OTHER_TOKEN),
        # the token with characters outside ASCII added (a comparison that drops or replaces what it cannot encode would accept them)
        ("nonascii-suffix", "Bearer " + t + "\u00e9"), ("nonascii-inside", "Bearer " + t[:3] + "\u00fc" + t[3:]), ("nonascii-prefix", "Bearer \u00df" + t), ("nonascii-only", "Bearer \u00fc\u00e9"),
        # near misses at the characters of the secret that pattern languages (regular expressions, globs, SQL LIKE) give a meaning to
        ("pattern-dot", "Bearer " + t.replace(".", "X")), ("pattern-plus", "Bearer " + t.replace("b+c", "bbc")), ("pattern-plus-literal-gone", "Bearer " + t.replace("b+c", "bc")),
        ("pattern-left-alternative", "Bearer " + t.split("|")[0]), ("pattern-right-alternative", "Bearer " + t.split("|")[1]), ("pattern-right-alternative-bare", t.split("|")[1]),
        ("pattern-percent", "Bearer %"), ("pattern-star", "Bearer *"), ("pattern-dotstar", "Bearer .*"),
        # contain the exact token as a word: recorded only
        ("EXEMPT-basic-token", "Basic " + t), ("EXEMPT-double-space", "Bearer  " + t), ("EXEMPT-extra-word", "Bearer " + t + " extra"),
        ("EXEMPT-lower-scheme", "bearer " + t),
    ]


def gen_cases(tier, seed):
    return [dict(state=s, part=p, parts=8) for s in STATES for p in range(8)]


def EXHAUSTIVE(tier):
    return True


def superset_body():
    from vlib.srv import MG, SC, EQS
    return {"scenario_managers": [MG], "scenarios": [SC], "equations": list(EQS), "scenarioManager": MG, "scenario_manager": MG, "scenario": SC,
            "settings": {MG: {SC: {"constants": {"rate": 0.9}, "points": {"curve": [[0, 1], [9, 9]]}}}}, "numberSteps": 2, "instances": 2,
            "timeout": {"minutes": 7}, "flatResults": False}


def build(state, tmp):
    from vlib import srv
    sd = os.path.join(tmp, "state_" + state)
    # another server with another token lives in the same process (one before, one after the server under test)
    others = [srv.make_server(srv.bptk_factory(), token=OTHER_TOKEN)]
    app = srv.make_server(srv.bptk_factory(), state_dir=sd, token=TOKEN)
    others.append(srv.make_server(srv.bptk_factory(), token=OTHER_TOKEN))
    app._verif_other_servers = others
    c = app.test_client()
    H = {"Authorization": "Bearer " + TOKEN}
    ids = {"dead": "0123456789abcdef0123456789abcdef", "malformed": "..%2F..%2Fetc", "weird": "a b",
           # ids that begin like the public resources
           "like-metrics": "metrics", "like-healthy": "healthy-1", "like-full-metrics": "full-metrics"}
    if state != "empty":
        iid = json.loads(c.post("/start-instance", json={"timeout": {"hours": 1}}, headers=H).get_data(as_text=True))["instance_uuid"]
        c.post("/%s/begin-session" % iid, json={"scenario_managers": [srv.MG], "scenarios": [srv.SC], "equations": list(srv.EQS)}, headers=H)
        c.post("/%s/run-step" % iid, json={"settings": {}}, headers=H)
        ids["live"] = iid
        if state == "locked":
            app._instance_manager._instances[iid]["instance"].lock()
        if state == "external":
            iid2 = json.loads(c.post("/start-instance", json={"timeout": {"hours": 1}}, headers=H).get_data(as_text=True))["instance_uuid"]
            c.post("/%s/begin-session" % iid2, json={"scenario_managers": [srv.MG], "scenarios": [srv.SC], "equations": list(srv.EQS)}, headers=H)
            c.post("/%s/run-step" % iid2, json={"settings": {}}, headers=H)
            app._instance_manager._delete_instance(iid2)     # only the state file is left
            ids["externalised"] = iid2
    return app, c, ids, sd


def run_case(case):
    from vlib import srv
    counters = {}
    nts = []
    tmp = tempfile.mkdtemp(prefix="c15_", dir=".")
    clock = srv.Clock()
    w = None
    with clock:
        app, c, ids, sd = build(case["state"], tmp)
        held = None
        if case["part"] % 2 == 1:
            # the embedding program holds an application context of this server open around all requests (a start script that pushed one,
            # a batch inside `with app.app_context()`): flask.g then lives across requests. One authorised request is served first.
            held = app.app_context()
            held.push()
            app.test_client().get("/scenarios", headers={"Authorization": "Bearer " + TOKEN})
            counters["parts_with_held_app_context"] = 1
        try:
            rules = sorted(app.url_map.iter_rules(), key=lambda r: r.rule)
            counters["rules_enumerated"] = len([r for r in rules if r.endpoint != "static"])
            reqs = []
            for r in rules:
                if r.endpoint == "static":
                    continue
                for method in sorted(r.methods):
                    variants = [r.rule]
                    if "<" in r.rule:
                        variants = []
                        for kind, iid in ids.items():
                            path = r.rule
                            for a in r.arguments:
                                path = path.replace("<%s>" % a, iid)
                            variants.append(path)
                    for path in variants:
                        for body in ("json", None):
                            reqs.append((r.rule, method, path, body))
            mine = reqs[case["part"]::case["parts"]]
            served_with_token = {}
            for (rule, method, path, body) in mine:
                public = rule.rstrip("/") in {p.rstrip("/") for p in PUBLIC} or rule == "/"
                for cname, header in credentials():
                    if public:
                        break
                    exempt = cname.startswith("EXEMPT")
                    headers = {} if header is None else {"Authorization": header}
                    before = srv.fingerprint(app, sd)
                    clock.advance(seconds=1)
                    try:
                        kw = dict(headers=headers)
                        if body:
                            kw["json"] = superset_body()
                        resp = c.open(path, method=method, **kw)
                        data = resp.get_data()
                        status = resp.status_code
                    except Exception as e:
                        status, data = 599, repr(e).encode()[:200]
                    after = srv.fingerprint(app, sd)
                    counters["fingerprint_comparisons"] = counters.get("fingerprint_comparisons", 0) + 1
                    if exempt:
                        counters["exempt_recorded"] = counters.get("exempt_recorded", 0) + 1
                        if srv.diff_fp(before, after):
                            # an exempt header may legitimately be accepted; rebuild nothing, just continue
                            pass
                        continue
                    if method == "OPTIONS":
                        if (status < 400 and data.strip()) or srv.diff_fp(before, after):
                            w = dict(kind="options-serves-or-changes", rule=rule, path=path, credential=cname, body=data[:100].decode("latin1"), changed=srv.diff_fp(before, after))
                            break
                        counters["options_checked"] = counters.get("options_checked", 0) + 1
                        continue
                    if status < 400:
                        w = dict(kind="served-without-token", rule=rule, method=method, path=path, credential=cname, header=header if header is None else header[:60], status=status,
                                 body=data[:120].decode("latin1"), state=case["state"], with_body=bool(body))
                        break
                    d = srv.diff_fp(before, after)
                    if d:
                        w = dict(kind="state-changed-by-refused-request", rule=rule, method=method, path=path, credential=cname, status=status, changed=d, state=case["state"])
                        break
                    counters["requests_refused"] = counters.get("requests_refused", 0) + 1
                if w:
                    break
            # control group on the same server (state is consumed, so it comes last): the exact token is not refused by the decorator
            if w is None:
                for (rule, method, path, body) in mine:
                    if method == "OPTIONS" or rule in PUBLIC:
                        continue
                    kw = dict(headers={"Authorization": "Bearer " + TOKEN})
                    if body:
                        kw["json"] = superset_body()
                    clock.advance(seconds=1)
                    try:
                        resp = c.open(path, method=method, **kw)
                        resp.get_data()
                        status = resp.status_code
                    except Exception:
                        status = 599
                    if status in (401, 403):
                        w = dict(kind="control-refused", rule=rule, method=method, path=path, status=status)
                        break
                    if status < 300:
                        counters["control_served"] = counters.get("control_served", 0) + 1
                        for cname, _h in credentials():
                            if not cname.startswith("EXEMPT"):
                                nts.append("%s|%s|%s" % (rule, method, cname))
                    # the identical request straight after the authorised one (anything the server remembers from serving it -
                    # a response cache, a restored instance, an open session - must not serve the next caller)
                    for cname, header in credentials():
                        if cname not in ("absent", "wrong", "prefix", "scheme-only"):
                            continue
                        headers = {} if header is None else {"Authorization": header}
                        before = srv.fingerprint(app, sd)
                        clock.advance(seconds=1)
                        kw = dict(headers=headers)
                        if body:
                            kw["json"] = superset_body()
                        try:
                            resp = c.open(path, method=method, **kw)
                            data = resp.get_data()
                            st2 = resp.status_code
                        except Exception as e:
                            st2, data = 599, repr(e).encode()[:200]
                        d = srv.diff_fp(before, srv.fingerprint(app, sd))
                        counters["fingerprint_comparisons"] = counters.get("fingerprint_comparisons", 0) + 1
                        if st2 < 400:
                            w = dict(kind="served-without-token-after-authorised-request", rule=rule, method=method, path=path, credential=cname, status=st2,
                                     body=data[:120].decode("latin1"), state=case["state"], with_body=bool(body), authorised_status=status)
                            break
                        if d:
                            w = dict(kind="state-changed-by-refused-request", rule=rule, method=method, path=path, credential=cname, status=st2, changed=d, state=case["state"], after_authorised=True)
                            break
                        counters["refused_after_authorised"] = counters.get("refused_after_authorised", 0) + 1
                    if w:
                        break
                # the public endpoints stay public
                for p in PUBLIC:
                    if c.get(p).status_code != 200:
                        w = w or dict(kind="public-endpoint-refused", path=p)
        finally:
            if held is not None:
                try:
                    held.pop()
                except Exception:
                    pass
            srv.destroy_server(app)
            for o_ in getattr(app, "_verif_other_servers", []):
                srv.destroy_server(o_)
    import shutil
    shutil.rmtree(tmp, True)
    if w is not None:
        return dict(verdict="violated", nt=nts, counters=counters, mech="%s:%s" % (w["kind"], w.get("rule", "")), witness=w)
    return dict(verdict="held", nt=nts, counters=counters, sample=dict(case=case, requests=len(mine)))
