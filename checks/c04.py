"""C04 - transpiled XMILE stock/flow dynamics are Euler-exact for any dt and match the DSL.

Translation validation of generated stock-and-flow structures: the transpiled
model is simulated through simulation_model().equation(stock, t) on the
util.timerange grid and (subset) through bptk.run_scenarios on a manager with a
'source'; oracle = vlib.refsd on the step index, second opinion = the same spec
built with the SD DSL.  A wrapper on the generated memoize observes the
'exactly one integration step per grid interval' clause directly: every key on
the decimal grid, one key per grid cell, one evaluation of each stock per cell."""
import os
import random
from fractions import Fraction as Fr

from vlib import expr as X
from vlib import refsd, spec as S, xmile as XM

ID = "C04"
LEVEL = "translation_validation"
TECHNIQUE = "trajectory differential (reference Euler interpreter + SD-DSL twin) with a memo-key trace monitor on the generated model"
RULE = ("generated XMILE structures: 1-3 stocks with 0-3 inflows and 0-3 outflows each, non-negative and bidirectional flows, auxiliaries, "
        "graphical functions in <xscale> and <xpts> form, flow equations incl. unparenthesised chains (a - b + c, a / k * c); every fifth document carries the structure a second time as a named module with other constants and initial values; run specs dt in {1,.5,.25,.125,.1,.05,.2,.3,.01} and reciprocal dt in {3,4,6,7,9,10,11,12,13}, start in {0,1,5,0.5,0.25}, "
        "4-60 steps; read through equation(name,t) for every grid time and (every 3rd case) through bptk.run_scenarios with a 'source' manager (base scenario and a scenario whose run specs move the start two steps later). "
        "programs = documents compiled; distinct_nontrivial = distinct (dt, start, #stocks, flow kinds, gf forms) combinations whose stocks "
        "actually move and where a non-negative flow clamps at least once or a stock has >=2 inflows/outflows.")
ASSUMPTIONS = ["stocks are not declared non-negative (only flows are)", "values compared at 1e-9 relative; memo keys must lie within 1e-9 of a grid point"]
REQUIRED = {"scenarios_started_at_zero": 3, "later_start_scenarios": 8, "documents_with_modules": 5, "documents_compiled": 30, "trajectory_cells": 3000, "memo_keys_checked": 3000, "dsl_twin_cells": 1000}
BUDGET_S = {"quick": 110, "thorough": 1500}

DTS = [("0.3", None), ("0.2", None), ("1", None), ("0.5", None), ("0.25", None), ("0.125", None), ("0.1", None), ("0.05", None), ("0.2", None), ("0.01", None),
       ("1/3", 3), ("1/4", 4), ("1/7", 7), ("1/10", 10), ("1/6", 6), ("1/11", 11), ("1/12", 12), ("1/9", 9), ("1/13", 13)]


def gen_cases(tier, seed):
    n = 110 if tier == "quick" else 4500
    return [dict(seed=seed * 65537 + i, via_bptk=(i % 3 == 0)) for i in range(n)]


def gen_structure(rng):
    dt, recip = rng.choice(DTS)
    start = rng.choice(["0", "1", "5", "0.5", "0.25"])     # incl. start times that are not a multiple of dt
    nsteps = rng.randint(4, 60 if dt != "0.01" else 40)
    if recip:
        # a stop time can only be written into the document exactly if it is a whole number: whole rounds only
        nsteps = recip * rng.randint(1, 6)
    stop = Fr(start) + nsteps * Fr(dt)
    if recip:
        run = dict(start=start, stop="%d/%d" % (stop.numerator, stop.denominator), dt=dt)
    else:
        from decimal import Decimal
        run = dict(start=start, stop=str(Decimal(start) + nsteps * Decimal(dt)), dt=dt)
    spec_el, xml_el, points = [], [], {}
    consts = []
    for i in range(rng.randint(2, 4)):
        nm = "k%d" % i
        v = rng.choice([0.1, 0.25, 0.5, 1.0, 2.0, 3.0, 0.05])
        consts.append(nm)
        spec_el.append(dict(name=nm, kind="constant", value=v))
        xml_el.append(dict(kind="aux", name=nm, eqn=repr(v)))
    stocks = ["stock%s" % c for c in "abc"[:rng.randint(1, 3)]]
    auxes = []
    gfforms = []
    for i in range(rng.randint(0, 3)):
        nm = "aux%d" % i
        src = rng.choice(stocks + ["TIME"])
        srcast = ["time"] if src == "TIME" else ["ref", src]
        if rng.random() < 0.55:
            form = rng.choice(["xscale", "xpts"])
            gfforms.append(form)
            ys = [round(rng.uniform(-1, 4), 2) for _ in range(rng.randint(3, 6))]
            if form == "xscale":
                gf = dict(xscale=(0, rng.choice([10, 20, 50])), ypts=ys)
            else:
                xs = sorted(set(round(rng.uniform(0, 40), 1) for _ in ys))
                ys = ys[:len(xs)]
                if len(xs) < 2:
                    xs, ys = [0.0, 10.0], [1.0, 2.0]
                gf = dict(xpts=xs, ypts=ys)
            points[nm] = XM.gf_points(gf)
            spec_el.append(dict(name=nm, kind="converter", eq=["lookup", srcast, nm]))
            xml_el.append(dict(kind="aux", name=nm, eqn="TIME" if src == "TIME" else src, gf=gf))
        else:
            c = rng.choice(consts)
            ast = ["bin", rng.choice(["*", "+", "-"]), srcast, ["ref", c]]
            spec_el.append(dict(name=nm, kind="converter", eq=ast))
            xml_el.append(dict(kind="aux", name=nm, eqn=XM.pr(ast)))
        auxes.append(nm)
    flows = {}
    kinds = set()
    for s in stocks:
        ins, outs = [], []
        for direction, lst in (("in", ins), ("out", outs)):
            for j in range(rng.randint(0, 3)):
                nm = "%s%s%d" % (direction, s[-1], j)
                nn = rng.random() < 0.5
                kinds.add("nonneg" if nn else "bi")
                pool = [["ref", c] for c in consts] + [["ref", a] for a in auxes] + [["ref", x] for x in stocks]
                a, b = rng.choice(pool), rng.choice(pool)
                form = rng.random()
                if form < 0.4:
                    ast = ["bin", "*", ["ref", rng.choice(consts)], ["ref", s if direction == "out" else rng.choice(stocks)]]
                elif form < 0.6:
                    ast = ["bin", "-", a, ["bin", "*", ["ref", rng.choice(consts)], b]]
                elif form < 0.7:
                    # unparenthesised chains of operators of one precedence level (left to right)
                    c = rng.choice(pool)
                    ast = rng.choice([["bin", "+", ["bin", "-", a, b], c], ["bin", "-", ["bin", "-", a, b], c],
                                      ["bin", "*", ["bin", "/", a, ["ref", rng.choice(consts)]], c], ["bin", "/", ["bin", "/", a, ["ref", rng.choice(consts)]], ["ref", rng.choice(consts)]]])
                else:
                    ast = ["bin", "+", ["bin", "*", a, ["num", 0.1]], ["bin", "-", ["num", 1.0], ["bin", "*", ["time"], ["num", 0.05]]]]
                spec_el.append(dict(name=nm, kind="flow" if nn else "biflow", eq=ast))
                xml_el.append(dict(kind="flow", name=nm, eqn=XM.pr(ast), non_negative=nn))
                lst.append(nm)
        flows[s] = (ins, outs)
    for s in stocks:
        ins, outs = flows[s]
        init = rng.choice([0.0, 1.0, 10.0, 100.0, 2.5])
        eq = None
        for f in ins:
            eq = ["ref", f] if eq is None else ["bin", "+", eq, ["ref", f]]
        for f in outs:
            eq = ["neg", ["ref", f]] if eq is None else ["bin", "-", eq, ["ref", f]]
        spec_el.append(dict(name=s, kind="stock", init=init, eq=eq))
        # (Stella writes <non_negative/> on stocks by default; this transpiler applies it to the stock's equation - its initial value - only,
        #  the integration itself stays explicit Euler, as in the SD DSL)
        xml_el.append(dict(kind="stock", name=s, eqn=repr(init), inflows=ins, outflows=outs, non_negative=(rng.random() < 0.5)))
    multi = any(len(i) >= 2 or len(o) >= 2 for i, o in flows.values())
    sig = "%s|%s|%d|%s|%s|%s" % (dt, start, len(stocks), sorted(kinds), sorted(set(gfforms)), multi)
    return dict(run=run, points=points, elements=spec_el), xml_el, recip, sig, stocks, multi


def EXHAUSTIVE(tier):
    return False


_n = [0]


def run_case(case):
    from BPTK_Py.util import timerange
    rng = random.Random(case["seed"])
    spec, xml_el, recip, sig, stocks, multi = gen_structure(rng)
    counters = {}
    try:
        ref = refsd.Ref(spec)
        table = ref.table()
        if ref.min_dist < 1e-6:
            raise X.IllConditioned("near discontinuity")
    except (X.IllConditioned, RecursionError):
        return dict(verdict="illcond", counters={"illcond": 1})
    names = [e["name"] for e in spec["elements"]]
    # every fifth document carries the same structure a second time as a named module: same equation texts, other constants and
    # initial values; every name resolves inside its own model
    modules, modspec, modtable = None, None, None
    if case["seed"] % 5 == 2:
        import copy
        modspec = copy.deepcopy(spec)
        mxml = copy.deepcopy(xml_el)
        for e, x in zip(modspec["elements"], mxml):
            if e["kind"] == "constant":
                e["value"] = e["value"] * 0.5 + 0.125
                x["eqn"] = repr(e["value"])
            elif e["kind"] == "stock":
                e["init"] = float(e["init"]) + 1.5
                x["eqn"] = repr(e["init"])
        try:
            mref = refsd.Ref(modspec)
            modtable = mref.table()
            if mref.min_dist < 1e-6:
                raise X.IllConditioned("near discontinuity")
            modules = {"Region B": mxml}
        except (X.IllConditioned, RecursionError):
            modspec = None
    clamps = any(e["kind"] == "flow" and min(table[e["name"]]) == 0.0 and max(table[e["name"]]) > 0 for e in spec["elements"])
    moves = any(max(table[s]) - min(table[s]) > 1e-9 for s in stocks)
    nt = sig if (moves and (clamps or multi)) else None
    _n[0] += 1
    mod = "c4_%d_%d" % (os.getpid(), _n[0])
    os.makedirs("models", exist_ok=True)
    run_xml = dict(start=spec["run"]["start"], stop=repr(ref.times[-1]) if "/" in str(spec["run"]["stop"]) else spec["run"]["stop"], dt=spec["run"]["dt"])
    w = None
    try:
        try:
            cls, src, dest = XM.compile_and_load(XM.document(mod, run_xml, xml_el, reciprocal=recip, modules=modules), "models", mod)
            m = cls()
        except Exception as e:
            import traceback
            return dict(verdict="violated", counters=counters, mech="in-grammar-document-rejected", witness=dict(error=traceback.format_exc()[-600:], spec=spec))
        counters["documents_compiled"] = 1
        if modspec is not None:
            counters["documents_with_modules"] = 1
        if abs(m.dt - float(Fr(spec["run"]["dt"]))) > 1e-15 or abs(m.starttime - ref.times[0]) > 1e-12:
            return dict(verdict="violated", counters=counters, mech="runspec-parsed-wrong", witness=dict(dt=m.dt, expected_dt=float(Fr(spec["run"]["dt"])), start=m.starttime, run=spec["run"]))
        # ---- memo-key trace monitor on this instance ---------------------------
        trace = []
        orig = m.memoize

        def memoize(equation, arg):
            before = len(m.memo.get(equation, {})) if isinstance(equation, str) and equation in m.memo else None
            r = orig(equation, arg)
            if before is not None and len(m.memo[equation]) > before:
                trace.append((equation, arg))
            return r
        m.memoize = memoize
        grid = timerange(m.starttime, m.stoptime, m.dt, exclusive=False) if not recip else ref.times
        if len(grid) != len(ref.times) or any(abs(a - b) > 1e-9 for a, b in zip(grid, ref.times)):
            return dict(verdict="violated", counters=counters, mech="grid", witness=dict(grid=grid[:5] + grid[-3:], expected=ref.times[:5] + ref.times[-3:], run=spec["run"]))
        from BPTK_Py.sdcompiler.plugins.sanitizeNames import sanitizeName
        for xe in xml_el:
            if xe["kind"] == "stock" and xe.get("non_negative") and min(table[xe["name"]]) < -1e-9:
                counters["non_negative_stocks_that_go_negative"] = counters.get("non_negative_stocks_that_go_negative", 0) + 1
        scoped = [("", nme, table) for nme in names] + ([(sanitizeName("region b") + ".", nme, modtable) for nme in names] if modspec is not None else [])
        for (scope, nme, tab_) in scoped:
            for k, t in enumerate(grid):
                try:
                    v = m.equation(scope + nme, t)
                except Exception as e:
                    w = dict(kind="equation-raises", element=scope + nme, t=t, error="%s: %s" % (type(e).__name__, str(e)[:160]))
                    break
                counters["trajectory_cells"] = counters.get("trajectory_cells", 0) + 1
                if not X.close(v, tab_[nme][k], rel=1e-9, ab=1e-9):
                    w = dict(kind="value", element=scope + nme, element_kind=[e["kind"] for e in spec["elements"] if e["name"] == nme][0], t=t, step=k, got=float(v), expected=tab_[nme][k],
                             hint="value equals the reference at step %s" % next((j for j in range(len(grid)) if X.close(v, tab_[nme][j], rel=1e-9, ab=1e-9)), None))
                    break
            if w:
                break
        # ---- offline check of the memo trace --------------------------------------
        if w is None:
            start, dt = Fr(spec["run"]["start"]), Fr(spec["run"]["dt"])
            cells = {}
            for (eq, arg) in trace:
                kf = (Fr(arg).limit_denominator(10 ** 12) - start) / dt
                k = round(kf)
                counters["memo_keys_checked"] = counters.get("memo_keys_checked", 0) + 1
                exact = float(start + k * dt)
                if abs(arg - exact) > 1e-9 * max(1.0, abs(exact)) or k < 0 or k > len(grid) - 1:
                    w = dict(kind="memo-key-off-grid", equation=eq, key=arg, nearest_grid=exact, step=k)
                    break
                cells.setdefault((eq, k), []).append(arg)
            if w is None:
                dup = {k: v for k, v in cells.items() if len(v) > 1}
                if dup:
                    (eq, k), keys = next(iter(dup.items()))
                    w = dict(kind="two-memo-keys-in-one-grid-cell", equation=eq, step=k, keys=keys)
            if w is None:
                for s in stocks:
                    got = sum(1 for (eq, k) in cells if eq == s)
                    if got != len(grid):
                        w = dict(kind="integration-steps", stock=s, evaluations=got, grid_points=len(grid))
                        break
        # ---- the SD DSL twin ------------------------------------------------------------
        if w is None and not recip:
            md, E = S.build_dsl(spec, name="twin")
            for s in stocks:
                for k, t in enumerate(ref.times):
                    v = E[s](t)
                    counters["dsl_twin_cells"] = counters.get("dsl_twin_cells", 0) + 1
                    if not X.close(v, m.memo[s].get(grid[k], float("nan")), rel=1e-9, ab=1e-9):
                        w = dict(kind="dsl-twin-differs", stock=s, t=t, dsl=float(v), xmile=m.memo[s].get(grid[k]))
                        break
                if w:
                    break
        # ---- through bptk with a 'source' manager ----------------------------------------
        if w is None and case["via_bptk"]:
            from BPTK_Py import bptk
            import importlib
            importlib.invalidate_caches()
            b = bptk()
            try:
                scen = {"base": {}}
                late_tab = None
                if not recip:
                    # a scenario that starts two steps later than the document says: its stocks start from their initial values THERE
                    import copy
                    sp_late = copy.deepcopy(spec)
                    sp_late["run"]["start"] = str(Fr(spec["run"]["start"]) + 2 * Fr(spec["run"]["dt"])) if "/" not in spec["run"]["start"] else spec["run"]["start"]
                    from decimal import Decimal
                    sp_late["run"]["start"] = str(Decimal(spec["run"]["start"]) + 2 * Decimal(spec["run"]["dt"]))
                    if Decimal(spec["run"]["start"]) > 0 and (Decimal(spec["run"]["start"]) / Decimal(spec["run"]["dt"])) % 1 == 0 and case["seed"] % 4 != 1:
                        # ... or EARLIER than the document says: exactly at time 0
                        sp_late["run"]["start"] = "0"
                        counters["scenarios_started_at_zero"] = counters.get("scenarios_started_at_zero", 0) + 1
                    try:
                        rl = refsd.Ref(sp_late)
                        late_tab = rl.table()
                        if rl.min_dist < 1e-6 or rl.n < 1:
                            late_tab = None
                    except (X.IllConditioned, RecursionError, ValueError):
                        late_tab = None
                    if late_tab is not None:
                        scen["late"] = {"runspecs": {"starttime": float(Decimal(sp_late["run"]["start"]))}}
                b.register_scenario_manager({"smX": {"model": "models/%s_b" % mod, "source": src, "scenarios": scen}})
                if late_tab is not None:
                    dfl = b.run_scenarios(scenarios=["late"], scenario_managers=["smX"], equations=list(stocks), return_format="dict")
                    counters["later_start_scenarios"] = counters.get("later_start_scenarios", 0) + 1
                    for s in stocks:
                        series = {float(t): float(v) for t, v in dfl["smX"]["late"]["equations"][s].items()}
                        ts = sorted(series)
                        if len(ts) != len(rl.times) or any(abs(a - bb) > 1e-9 for a, bb in zip(ts, rl.times)):
                            w = dict(kind="bptk-grid", scenario="late start", stock=s, got=[ts[0], ts[-1], len(ts)], expected=[rl.times[0], rl.times[-1], len(rl.times)])
                            break
                        for k, t in enumerate(ts):
                            counters["trajectory_cells"] = counters.get("trajectory_cells", 0) + 1
                            if not X.close(series[t], late_tab[s][k], rel=1e-9, ab=1e-9):
                                w = dict(kind="value", via="bptk.run_scenarios, scenario with a later start time", element=s, element_kind="stock", t=t, step=k, got=series[t], expected=late_tab[s][k])
                                break
                        if w:
                            break
                    if w:
                        raise StopIteration
                df = b.run_scenarios(scenarios=["base"], scenario_managers=["smX"], equations=list(stocks), return_format="dict")
                for s in stocks:
                    series = {float(t): float(v) for t, v in df["smX"]["base"]["equations"][s].items()}
                    ts = sorted(series)
                    if len(ts) != len(ref.times) or any(abs(a - bb) > 1e-9 for a, bb in zip(ts, ref.times)):
                        w = dict(kind="bptk-grid", stock=s, got=[ts[0], ts[-1], len(ts)], expected=[ref.times[0], ref.times[-1], len(ref.times)])
                        break
                    for k, t in enumerate(ts):
                        counters["trajectory_cells"] = counters.get("trajectory_cells", 0) + 1
                        if not X.close(series[t], table[s][k], rel=1e-9, ab=1e-9):
                            w = dict(kind="value", via="bptk.run_scenarios", element=s, element_kind="stock", t=t, step=k, got=series[t], expected=table[s][k])
                            break
                    if w:
                        break
            except StopIteration:
                pass
            except Exception as e:
                import traceback
                w = dict(kind="bptk-exception", error=traceback.format_exc()[-500:])
            finally:
                b.destroy()
    finally:
        for f in ("%s.py" % mod, "%s.stmx" % mod, "%s_b.py" % mod):
            try:
                os.remove(os.path.join("models", f))
            except OSError:
                pass
    if w is not None:
        dtc = "decimal-dt" if spec["run"]["dt"] in ("0.1", "0.05", "0.2", "0.01") else ("reciprocal-dt" if recip else "binary-dt")
        mech = "%s:%s" % (w["kind"], dtc)
        return dict(verdict="violated", nt=nt, counters=counters, mech=mech, witness=dict(first=w, run=spec["run"], spec=spec))
    return dict(verdict="held", nt=nt, counters=counters, sample=dict(run=spec["run"], stocks=stocks, elements=len(spec["elements"])))
