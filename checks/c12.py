"""C12 - an agent-based run executes every step once, in order, for every agent.

Oracle: a step automaton fed by the callback log of instrumented Model / Agent
/ DataCollector subclasses (vlib.abm)."""
import itertools
import random
from decimal import Decimal as D

ID = "C12"
LEVEL = "exploration"
TECHNIQUE = "online-recorded callback trace checked by a step automaton; agent_statistics keys vs expected time list"
RULE = ("lattice start<=stop in -2..6 (integers, incl. stop=0) x dt in {1,.5,.25,.2,.1} (plus dt=1/n for n in 3,7,49,93,105,186,... on short ranges) x populations of 0-6 agents of 1-2 types "
        "x collect on/off x scripted creation/deletion in begin_round/end_round and from inside act() (an agent deletes itself, an earlier or a later agent, or creates one: only agents alive throughout the step are judged there); three drivers: Model.run (half of the unscripted ones run a second time with data collection switched the other way), bptk.run_scenarios on "
        "1-3 scenarios of one manager (threads), externally driven Model.run_step, and a bptk session (begin_session / run_step) over two abm managers that own a scenario of the same name (one complete step per call and model, none for scenarios outside the session). distinct_nontrivial = distinct "
        "(driver, start, stop, dt, collect, has-population-change) combinations with at least 2 steps and 1 agent.")
ASSUMPTIONS = ["run specs are integers set through run_specs/configure as the scenario loader does (Model(starttime=..) stores floats, which range() rejects: API precondition, not judged)",
               "for a population change made inside act() the statement is read as: every agent alive before and after the step acts exactly once, in creation order; agents deleted or created inside the step may act at most once",
               "time is compared with round+step*dt up to 1e-9"]
REQUIRED = {"dt_assigned_after_configuration": 20, "scheduler_positions_checked": 2000, "second_runs": 20, "session_calls": 15, "steps_observed": 2000, "acts_observed": 2000, "collects_observed": 1000, "steps_with_population_change_inside_act": 50}
BUDGET_S = {"quick": 100, "thorough": 900}
DTS = ["1", "0.5", "0.25", "0.2", "0.1"]
RECIP = [3, 7, 93, 105, 49, 186, 99, 117, 123, 198, 210, 211, 6, 9, 12, 100, 1000]


def gen_cases(tier, seed):
    rng = random.Random(500 + seed)
    cases = []
    lattice = [(s, e) for s in range(-2, 7) for e in range(s, 7)]
    if tier == "quick":
        lattice = [(s, e) for (s, e) in lattice if e - s <= 3 or (s, e) in ((0, 6), (-2, 6), (1, 6))]
    for (s, e) in lattice:
        for dt in DTS:
            for collect in (True, False):
                for driver in ("run", "bptk", "steps"):
                    if driver == "bptk" and not collect:
                        continue
                    if tier == "quick" and driver != "run" and rng.random() < 0.5:
                        continue
                    n_agents = rng.choice([0, 1, 2, 3, 6])
                    steps = (e - s + 1) * int(round(1 / dt_float(dt)))
                    script = {"begin": {}, "end": {}}
                    changes = rng.random() < 0.6
                    if changes:
                        for _ in range(rng.randint(1, 3)):
                            k = str(rng.randrange(steps))
                            ph = rng.choice(["begin", "end"])
                            if rng.random() < 0.6:
                                script[ph].setdefault(k, []).append(["create", rng.choice(["a", "b"]), None])
                            else:
                                script[ph].setdefault(k, []).append(["delete", rng.randrange(0, 6)])
                    if changes and n_agents >= 2 and rng.random() < 0.5:
                        # a population change from inside act(): an agent deletes itself / an earlier / a later agent, or creates one
                        for _ in range(rng.randint(1, 2)):
                            k = str(rng.randrange(steps))
                            actor = rng.randrange(n_agents)
                            op = ["delete", rng.choice([actor, max(0, actor - 1), min(n_agents - 1, actor + 1), 0])] if rng.random() < 0.75 else ["create", rng.choice(["a", "b"]), None]
                            script.setdefault("act", {}).setdefault(k, {}).setdefault(str(actor), []).append(op)
                    cases.append(dict(start=s, stop=e, dt=dt, collect=collect, driver=driver, n_agents=n_agents,
                                      script=script, changes=changes, nscen=rng.randint(1, 3)))
    # externally driven through a bptk session over TWO abm managers that own a scenario of the same name: one step per call and model
    for (s_, e_) in ((0, 3), (1, 4)):
        for dt in ("1", "0.5"):
            for n_agents in (1, 2, 3):
                cases.append(dict(start=s_, stop=e_, dt=dt, collect=True, driver="session", n_agents=n_agents, script={"begin": {}, "end": {}}, changes=False, nscen=1,
                                  calls=rng.randint(2, 4)))      # never more calls than the session has steps (start..stop)
    # dt = 1/n for n that are not exact in binary (1/dt computed in floating point may fall just below n): all three drivers
    for n in RECIP if tier == "thorough" else RECIP[:6]:
        for (s, e) in ((0, 1), (3, 4), (-1, 0)) if tier == "thorough" else ((0, 1), (3, 4)):
            for collect in (True, False):
                for driver in ("run", "steps", "bptk"):
                    if driver == "bptk" and (not collect or n > 50):
                        continue
                    cases.append(dict(start=s, stop=e, dt="1/%d" % n, collect=collect, driver=driver, n_agents=rng.choice([1, 2]),
                                      script={"begin": {}, "end": {}}, changes=False, nscen=1))
    return cases


def EXHAUSTIVE(tier):
    return tier == "thorough"


def dt_float(dt):
    return 1.0 / int(dt[2:]) if dt.startswith("1/") else float(dt)


def expected_steps(case):
    from fractions import Fraction
    d = Fraction(case["dt"])
    n = int(1 / d)
    out = []
    for r in range(case["start"], case["stop"] + 1):
        for s in range(n):
            out.append((r, s, float(r + s * d)))
    return out


def check_log(log, steps, collect, final_only_time=None):
    """Automaton over the recorded callback log. Returns (witness|None, stats)."""
    stats = dict(steps=0, acts=0, collects=0)
    i = 0
    n = len(log)

    def skip_noise(j):
        while j < n and log[j][0] in ("sent", "handled", "op", "population"):
            j += 1
        return j
    for idx, (r, s, t) in enumerate(steps):
        i = skip_noise(i)
        if i >= n or log[i][0] != "begin":
            return dict(kind="missing-step", expected=(r, s, t), at=i, found=log[i] if i < n else None), stats
        _, bt, br, bs, _k = log[i]
        if br != r or bs != s or abs(bt - t) > 1e-9:
            return dict(kind="wrong-step", expected=(r, s, t), found=(br, bs, bt)), stats
        i = skip_noise(i + 1)
        if i >= n or log[i][0] != "agents":
            return dict(kind="harness", msg="no agents snapshot"), stats
        ids = log[i][1]
        i += 1
        if ids != sorted(ids):
            # ids are issued in creation order, so the live population must be listed (and act) in increasing id order
            return dict(kind="creation-order", step=(r, s, t), agents=ids), stats
        # population changes made from inside act() in this step: only the agents that are alive throughout are judged
        j = i
        mid = []
        while j < n and log[j][0] != "end":
            if log[j][0] == "op" and log[j][1] == "act":
                mid.append(log[j])
            j += 1
        if mid:
            deleted = set(op[2][1] for op in mid if op[2][0] == "delete")
            survivors = [a for a in ids if a not in deleted]
            seq = [(e[0], e[1]) for e in log[i:j] if e[0] in ("handle", "act")]
            if any(abs(e[2] - t) > 1e-9 for e in log[i:j] if e[0] in ("handle", "act")):
                return dict(kind="agent-order", step=(r, s, t), msg="callback with a foreign time", agents=ids), stats
            acted = [a for (k_, a) in seq if k_ == "act"]
            if len(acted) != len(set(acted)):
                return dict(kind="acts-twice", step=(r, s, t), acted=acted, agents=ids), stats
            for a in survivors:
                if acted.count(a) != 1 or ("handle", a) not in seq or seq.index(("handle", a)) > seq.index(("act", a)):
                    return dict(kind="survivor-does-not-act-once", step=(r, s, t), agent=a, acted=acted, agents=ids, deleted_in_act=sorted(deleted)), stats
            order = [a for a in acted if a in survivors]
            if order != sorted(order):
                return dict(kind="agent-order", step=(r, s, t), acted=acted, agents=ids), stats
            stats["acts"] += len(acted)
            stats["mid_act_changes"] = stats.get("mid_act_changes", 0) + 1
            i = j
            ids = []
        for a in ids:
            i = skip_noise(i)
            if i >= n or log[i][0] != "handle" or log[i][1] != a or abs(log[i][2] - t) > 1e-9:
                return dict(kind="agent-order", step=(r, s, t), expected=("handle", a), found=log[i] if i < n else None, agents=ids), stats
            i = skip_noise(i + 1)
            if i >= n or log[i][0] != "act" or log[i][1] != a or abs(log[i][2] - t) > 1e-9:
                return dict(kind="agent-order", step=(r, s, t), expected=("act", a), found=log[i] if i < n else None, agents=ids), stats
            i += 1
            stats["acts"] += 1
        i = skip_noise(i)
        if i >= n or log[i][0] != "end" or abs(log[i][1] - t) > 1e-9:
            return dict(kind="end-missing", step=(r, s, t), found=log[i] if i < n else None), stats
        i = skip_noise(i + 1)
        want_collect = collect or idx == len(steps) - 1
        if want_collect:
            if i >= n or log[i][0] != "collect" or abs(log[i][1] - t) > 1e-9:
                return dict(kind="collect-missing", step=(r, s, t), found=log[i][:2] if i < n else None), stats
            i += 1
            stats["collects"] += 1
        i = skip_noise(i)
        if i < n and log[i][0] == "collect":
            return dict(kind="collect-extra", step=(r, s, t)), stats
        stats["steps"] += 1
    i = skip_noise(i)
    if i < n:
        return dict(kind="extra-step", found=log[i][:4], after_steps=len(steps)), stats
    return None, stats


def run_case(case):
    from vlib import abm
    counters = {}
    steps = expected_steps(case)
    dt = dt_float(case["dt"])
    # interleaved creation order of the two types (a b a b ...), so that "creation order" differs from "grouped by type"
    agents = [{"name": "ab"[i % 2], "count": 1} for i in range(case["n_agents"])]
    logs = []
    session_logs = []
    pos_models = []
    try:
        if case["driver"] == "run":
            if (case["start"] + case["stop"] + case["n_agents"]) % 3 == 1:
                # the model is configured with another dt first; the dt of the run is then ASSIGNED (model.dt = ..., as REST /run settings do)
                m = abm.new_model(case["start"], case["stop"], 1.0 if dt != 1.0 else 0.5, script=case["script"], agents=agents)
                m.dt = dt
                counters["dt_assigned_after_configuration"] = 1
            else:
                m = abm.new_model(case["start"], case["stop"], dt, script=case["script"], agents=agents)
            m.run(collect_data=case["collect"])
            pos_models.append(m)
            logs.append((list(m.log), dict(m.data_collector.agent_statistics), case["collect"]))
            if not case["changes"] and (case["start"] + case["stop"] + case["n_agents"]) % 2 == 0:
                # the same model run a second time with data collection switched the other way: the second run's records only
                del m.log[:]
                m.step_counter = -1
                m.run(collect_data=not case["collect"])
                logs.append((list(m.log), dict(m.data_collector.agent_statistics), not case["collect"]))
                counters["second_runs"] = 1
        elif case["driver"] == "steps":
            # externally driven: one scheduler step per call, round by round
            m = abm.new_model(case["start"], case["stop"], dt, script=case["script"], agents=agents)
            for (r, s, t) in steps:
                m.scheduler.run_step(m, r, s, None, case["collect"])
            logs.append((m.log, m.data_collector.agent_statistics, case["collect"]))
            pos_models.append(m)
        elif case["driver"] == "session":
            from BPTK_Py import bptk
            cfg = {"runspecs": {"starttime": case["start"], "stoptime": case["stop"], "dt": dt}, "properties": {}, "agents": agents}
            b = bptk()
            try:
                for mg in ("smNorth", "smSouth"):
                    base = abm.LogModel(name="abm", scheduler=abm.SimultaneousScheduler(), data_collector=abm.LogCollector())
                    b.register_scenario_manager({mg: {"type": "abm", "model": base, "scenarios": {"base": cfg, "other_" + mg: cfg}}})
                b.begin_session(scenarios=["base"], scenario_managers=["smNorth", "smSouth"], agents=["a"], agent_states=["active"], starttime=float(case["start"]), dt=dt)
                for _ in range(case["calls"]):
                    b.run_step()
                counters["session_calls"] = counters.get("session_calls", 0) + case["calls"]
                for mg in ("smNorth", "smSouth"):
                    for nm, sc in b.scenario_manager_factory.scenario_managers[mg].scenarios.items():
                        begins = [(e[2], e[3], e[1]) for e in sc.log if e[0] == "begin"]
                        want = case["calls"] if nm == "base" else 0
                        if len(begins) != want or any(b2[2] <= b1[2] for b1, b2 in zip(begins, begins[1:])):
                            return dict(verdict="violated", counters=counters, mech="session-step-count",
                                        witness=dict(manager=mg, scenario=nm, run_step_calls=case["calls"], steps_executed=begins, case=case))
                        if nm == "base":
                            session_logs.append((sc.log, begins))
                            pos_models.append(sc)
            finally:
                b.destroy()
        else:
            from BPTK_Py import bptk
            base = abm.LogModel(name="abm", scheduler=abm.SimultaneousScheduler(), data_collector=abm.LogCollector())
            cfg = {"runspecs": {"starttime": case["start"], "stoptime": case["stop"], "dt": dt}, "properties": {}, "agents": agents}
            scen = {"sc%d" % i: cfg for i in range(case["nscen"])}
            b = bptk()
            try:
                b.register_scenario_manager({"smAbm": {"type": "abm", "model": base, "scenarios": scen}})
                mgr = b.scenario_manager_factory.scenario_managers["smAbm"]
                for sc in mgr.scenarios.values():
                    sc.script = case["script"]
                df = b.run_scenarios(scenarios=list(scen), scenario_managers=["smAbm"], agents=["a"], agent_states=["active"], return_format="df")
                for nm, sc in mgr.scenarios.items():
                    pos_models.append(sc)
                    logs.append((sc.log, sc.data_collector.agent_statistics, True))
                if case["stop"] > 0 and case["n_agents"] > 0:
                    if df is None or len(df) == 0:
                        return dict(verdict="violated", counters=counters, mech="bptk-no-result", witness=dict(case=case))
            finally:
                b.destroy()
    except Exception as e:
        import traceback
        return dict(verdict="violated", counters=counters, mech="exception:" + type(e).__name__,
                    witness=dict(case=case, error=traceback.format_exc()[-700:]))
    for pm in pos_models:
        # the position of the run as the scheduler reports it inside the callbacks
        w = abm.position_witness(pm)
        counters["scheduler_positions_checked"] = counters.get("scheduler_positions_checked", 0) + len(getattr(pm, "positions", []))
        if w is not None:
            return dict(verdict="violated", counters=counters, mech=w["kind"] + ":" + case["driver"], witness=dict(first=w, case=case))
    for (log, begins) in session_logs:
        # the steps a session executed (one per call, checked above) must each be a complete step: every agent handles and acts once
        w, st = check_log(log, begins, True)
        counters["steps_observed"] = counters.get("steps_observed", 0) + st["steps"]
        counters["acts_observed"] = counters.get("acts_observed", 0) + st["acts"]
        if w is not None:
            return dict(verdict="violated", counters=counters, mech=w["kind"], witness=dict(first=w, case=case, driver="session"))
    for (log, stats_keys, collect) in logs:
        w, st = check_log(log, steps, collect)
        counters["steps_observed"] = counters.get("steps_observed", 0) + st["steps"]
        counters["acts_observed"] = counters.get("acts_observed", 0) + st["acts"]
        counters["collects_observed"] = counters.get("collects_observed", 0) + st["collects"]
        counters["steps_with_population_change_inside_act"] = counters.get("steps_with_population_change_inside_act", 0) + st.get("mid_act_changes", 0)
        if w is None:
            exp_t = [t for (_, _, t) in steps] if collect else [steps[-1][2]]
            got = list(stats_keys.keys())
            if len(got) != len(exp_t) or any(abs(a - b) > 1e-9 for a, b in zip(got, exp_t)):
                w = dict(kind="statistics-keys", got=got[:6] + got[-3:], expected=exp_t[:6] + exp_t[-3:], n_got=len(got), n_expected=len(exp_t))
        if w is not None:
            return dict(verdict="violated", counters=counters, mech=w["kind"], witness=dict(first=w, case=case))
    nt = None
    if len(steps) >= 2 and case["n_agents"] >= 1:
        nt = "%s|%d|%d|%s|%s|%s" % (case["driver"], case["start"], case["stop"], case["dt"], case["collect"], case["changes"])
    return dict(verdict="held", nt=nt, counters=counters, sample=dict(case=case, steps=len(steps)))
