"""C01 - SD DSL simulation equals the explicit-Euler solution of the model.

Oracle: vlib.refsd (independent step-index Euler interpreter).
Monitors: every value stored by Model.memoize during the run is compared
online with the reference value of that (element, step); the three public
read channels (run_scenarios df, Element.__call__, Element.plot) are compared
on the decimal grid.
"""
import random

from vlib import expr as X
from vlib import refsd, spec as S
from vlib import monitors as M

ID = "C01"
LEVEL = "exploration"
TECHNIQUE = "online memo-store monitor + channel differential against an independent Euler reference interpreter"
RULE = ("seeded random acyclic stock/flow specs (1-3 stocks, flows/biflows/converters/constants, equations depth<=3 over "
        "+ - * / min max abs sqrt If, time/dt/starttime/stoptime, lookup (inline and named points), delay (with/without "
        "initial value), smooth, trend, step, pulse) x 12 run specs incl. decimal dt and non-zero start; every fourth model is defined under other run specs "
        "(earlier start, coarser dt) and receives its run specs afterwards through Model.run_specs(); every model is also run as a scenario that overrides one constant (a stock's initial-value constant where there is one) and re-read after that constant was re-defined on the evaluated model, and after a point of a named lookup was moved in place (followed by reset_cache). "
        "distinct_nontrivial = distinct (built-in, position) pairs and element-kind/dt classes observed in well-conditioned "
        "specs whose trajectory is not constant.")
ASSUMPTIONS = ["step(h,ts)=h for t>ts and pulse=v/dt at first(+k*interval): the convention of the library's own test_sddsl_functions",
               "ill-conditioned specs (near a discontinuity, |v|>1e12, tiny divisors) are dropped by a reference-side rule and counted",
               "random-number functions are excluded here (C08 covers them)"]
REQUIRED = {"scenarios_run_on_a_coarser_grid_first": 30, "points_edit_cells": 500, "scenario_override_cells": 1000, "redefinition_cells": 1000, "models_with_run_specs_set_after_definition": 20, "memo_events_checked": 1000, "df_cells": 1000, "call_cells": 1000, "plot_cells": 500}
BUDGET_S = {"quick": 100, "thorough": 1200}


def designed_specs():
    """Time functions whose switching time IS a grid time, written directly into a stock equation and, for comparison, routed
    through a flow: both stocks must integrate the same thing (the rate as it was at the previous grid point)."""
    from decimal import Decimal as D
    out = []
    for (start, dt) in (("0", "0.1"), ("0", "0.2"), ("2.3", "0.1"), ("0", "0.05"), ("1", "0.3"), ("0", "0.25"), ("-1", "0.1"), ("64.1", "0.1")):
        for k in range(1, 7):
            ts = float(D(start) + k * D(dt))
            for fn in (["step", 2.5, ts], ["pulse", 4.0, ts, 0.0], ["pulse", 1.0, ts, float(2 * D(dt))]):
                els = [dict(name="c0", kind="constant", value=1.5),
                       dict(name="f0", kind="flow", eq=["bin", "+", fn, ["bin", "*", ["ref", "c0"], ["num", 0.0]]]),
                       dict(name="s0", kind="stock", init=1.0, eq=["ref", "f0"]),
                       dict(name="s1", kind="stock", init=1.0, eq=fn),
                       dict(name="s2", kind="stock", init=0.0, eq=["bin", "-", ["ref", "c0"], ["bin", "*", fn, ["num", 2.0]]])]
                out.append(dict(run=dict(start=start, stop=str(D(start) + 10 * D(dt)), dt=dt), points={}, elements=els))
    return out


def gen_cases(tier, seed):
    n = 500 if tier == "quick" else 16000
    return [dict(seed=seed * 1000003 + i) for i in range(n)] + [dict(spec=sp, seed=i, designed=True) for i, sp in enumerate(designed_specs())]


def make_spec(case):
    rng = random.Random(case["seed"])
    g = S.Gen(rng)
    sp = g.spec()
    return sp, g


def worker_init():
    M.install_memo_monitor()


def run_case(case):
    sp, g = make_spec(case) if "spec" not in case else (case["spec"], None)
    counters = {}
    ref = refsd.Ref(sp)
    try:
        table = ref.table()
        if ref.min_dist < 1e-6:
            raise X.IllConditioned("near discontinuity")
    except X.IllConditioned:
        return dict(verdict="illcond", counters={"illcond": 1})
    except RecursionError:
        return dict(verdict="illcond", counters={"illcond": 1})
    names = [e["name"] for e in sp["elements"]]
    times = ref.times
    # every fourth model is defined under other run specs (earlier start, coarser dt) and gets the spec's run specs afterwards
    res = compare_dsl(sp, names, times, table, counters, late_runspecs=(case.get("seed", 0) % 4 == 1))
    nt = []
    nonconst = any(max(v) - min(v) > 1e-9 for v in table.values())
    if nonconst:
        for b in (g.used_builtins if g else []):
            nt.append("builtin:%s@%s" % b)
        nt.append("run:dt=%s,start=%s" % (sp["run"]["dt"], sp["run"]["start"]))
        for e in sp["elements"]:
            nt.append("kind:" + e["kind"])
    if res:
        return dict(verdict="violated", nt=nt, counters=counters, mech=res["mech"],
                    witness=dict(res, spec=sp))
    return dict(verdict="held", nt=nt, counters=counters,
                sample=dict(run=sp["run"], elements=[(e["name"], e["kind"], X.show(e["eq"]) if e.get("eq") else e.get("value", e.get("init"))) for e in sp["elements"]]))


def lookup_time(index, t):
    for i in index:
        if abs(float(i) - t) <= 1e-9 * max(1.0, abs(t)):
            return i
    return None


def compare_dsl(sp, names, times, table, counters, tol=1e-9, late_runspecs=False):
    """Returns None or a witness dict for the first divergence."""
    from BPTK_Py import bptk
    try:
        m, E = S.build_dsl(sp, name="m", late_runspecs=late_runspecs)
        if late_runspecs:
            counters["models_with_run_specs_set_after_definition"] = 1
    except Exception as e:
        return dict(mech="build-exception", error=repr(e)[:300])
    start, dt = float(sp["run"]["start"]), float(sp["run"]["dt"])

    def k_of(t):
        return int(round((t - start) / dt))

    # --- channel 1: batch run through bptk, memo monitor online -----------
    rec = M.MemoRecorder()
    b = bptk()
    try:
        import math as _math
        coarse_first = (not late_runspecs) and getattr(compare_dsl, "_n", 0) % 3 == 0
        compare_dsl._n = getattr(compare_dsl, "_n", 0) + 1
        if coarse_first:
            # the scenario is first run on a coarser grid (whole-number start, dt 1), then given the run specs of the specification the way
            # REST /run settings do it (scenario attributes + scenario cache reset) and run again: only the second run is judged
            c0 = float(_math.floor(start))
            b.register_model(m, scenario_manager="smC01", scenario={"base": {"runspecs": {"starttime": c0, "stoptime": c0 + 3.0, "dt": 1.0}}})
            try:
                b.run_scenarios(scenarios=["base"], scenario_managers=["smC01"], equations=list(names), return_format="df")
            except Exception:
                pass
            sc_ = b.get_scenario("smC01", "base")
            b.reset_scenario_cache(scenario_manager="smC01", scenario="base")
            sc_.starttime, sc_.stoptime, sc_.dt = start, float(sp["run"]["stop"]), dt
            counters["scenarios_run_on_a_coarser_grid_first"] = 1
        else:
            b.register_model(m, scenario_manager="smC01")
        with rec:
            df = b.run_scenarios(scenarios=["base"], scenario_managers=["smC01"], equations=list(names), return_format="df")
    except Exception as e:
        b.destroy()
        return dict(mech="run-exception", error=repr(e)[:300])
    b.destroy()
    first = None
    for (eq, raw, key, hit, val) in rec.events:
        if hit or eq not in table:
            continue
        k = k_of(key)
        if k < 0 or k > len(times) - 1:
            continue
        counters["memo_events_checked"] = counters.get("memo_events_checked", 0) + 1
        if not X.close(val, table[eq][k], rel=tol, ab=1e-9):
            first = dict(mech="value:" + kind_of(sp, eq), channel="memo-store", element=eq, t=key, got=float(val), expected=table[eq][k])
            break
    if first:
        try:
            first["function_string"] = E[first["element"]].function_string
        except Exception:
            pass
        return first
    if df is None:
        return dict(mech="no-result", channel="run_scenarios")
    for nme in names:
        col = "smC01_base_" + nme
        if col not in df.columns and nme in df.columns:
            col = nme
        if col not in df.columns:
            return dict(mech="missing-equation", channel="run_scenarios", element=nme, columns=list(df.columns))
        for k, t in enumerate(times):
            i = lookup_time(df.index, t)
            if i is None:
                return dict(mech="missing-grid-time", channel="run_scenarios", element=nme, t=t, index=[float(x) for x in df.index][:60])
            counters["df_cells"] = counters.get("df_cells", 0) + 1
            v = df[col][i]
            if not X.close(v, table[nme][k], rel=tol, ab=1e-9):
                return dict(mech="value:" + kind_of(sp, nme), channel="run_scenarios", element=nme, t=t, got=float(v), expected=table[nme][k],
                            function_string=E[nme].function_string)
    # --- channel 2: Element.__call__ on the model itself -------------------
    for nme in names:
        for k, t in enumerate(times):
            try:
                v = E[nme](t)
            except Exception as e:
                return dict(mech="call-exception", element=nme, t=t, error=repr(e)[:200])
            counters["call_cells"] = counters.get("call_cells", 0) + 1
            if not X.close(v, table[nme][k], rel=tol, ab=1e-9):
                return dict(mech="value:" + kind_of(sp, nme), channel="Element.__call__", element=nme, t=t, got=float(v), expected=table[nme][k],
                            function_string=E[nme].function_string)
    # --- channel 2b: a scenario that overrides one constant (preferably one that is a stock's initial value), and the same
    #     constant re-defined on the model after everything has been evaluated once ---------------------------------------------
    consts = [e for e in sp["elements"] if e["kind"] == "constant"]
    inits = [e["init"]["ref"] for e in sp["elements"] if e["kind"] == "stock" and isinstance(e.get("init"), dict)]
    if consts:
        import copy
        cname = inits[0] if inits else consts[0]["name"]
        sp2 = copy.deepcopy(sp)
        for e in sp2["elements"]:
            if e["name"] == cname:
                e["value"] = newv = float(e["value"]) * 1.5 + 0.25
        try:
            ref2 = refsd.Ref(sp2)
            table2 = ref2.table()
            ok2 = ref2.min_dist >= 1e-6
        except (X.IllConditioned, RecursionError):
            ok2 = False
        if ok2:
            b2 = bptk()
            try:
                m2, E2 = S.build_dsl(sp, name="m2", late_runspecs=late_runspecs)
                b2.register_model(m2, scenario_manager="smC01b", scenario={"base": {}, "alt": {"constants": {cname: newv}}})
                df2 = b2.run_scenarios(scenarios=["alt"], scenario_managers=["smC01b"], equations=list(names), return_format="df")
                for nme in names:
                    col = "smC01b_alt_" + nme if "smC01b_alt_" + nme in df2.columns else nme
                    for k, t in enumerate(times):
                        i = lookup_time(df2.index, t)
                        counters["scenario_override_cells"] = counters.get("scenario_override_cells", 0) + 1
                        if i is None or not X.close(df2[col][i], table2[nme][k], rel=tol, ab=1e-9):
                            return dict(mech="value:" + kind_of(sp, nme), channel="scenario that overrides constant %s" % cname, element=nme, t=t,
                                        got=None if i is None else float(df2[col][i]), expected=table2[nme][k], stock_initial_value_constant=bool(inits))
            except Exception as e:
                return dict(mech="run-exception", channel="scenario override", error=repr(e)[:300])
            finally:
                b2.destroy()
            # the same change made on the model object itself, after it has been evaluated (channel 2 above filled its memo)
            try:
                E[cname].equation = newv
                for nme in names:
                    for k, t in enumerate(times):
                        v = E[nme](t)
                        counters["redefinition_cells"] = counters.get("redefinition_cells", 0) + 1
                        if not X.close(v, table2[nme][k], rel=tol, ab=1e-9):
                            return dict(mech="value:" + kind_of(sp, nme), channel="constant %s re-defined after evaluation" % cname, element=nme, t=t, got=float(v),
                                        expected=table2[nme][k], stock_initial_value_constant=bool(inits))
            except Exception as e:
                return dict(mech="call-exception", channel="constant re-defined", error=repr(e)[:200])
            finally:
                E[cname].equation = float([e["value"] for e in sp["elements"] if e["name"] == cname][0])
    # --- channel 2c: a point of a named lookup moved IN PLACE on the evaluated model, cache reset, everything read again ------------
    used = set()

    def walk(a):
        if isinstance(a, list):
            if a and a[0] == "lookup" and isinstance(a[2], str):
                used.add(a[2])
            for z in a:
                walk(z)
    for e in sp["elements"]:
        walk(e.get("eq"))
    if used:
        import copy
        import json
        pn = sorted(used)[0]
        sp3 = json.loads(json.dumps(sp))      # (a JSON round trip also un-aliases inline lookups that share their list with sp["points"])
        j = len(sp3["points"][pn]) // 2
        sp3["points"][pn][j][1] = float(sp3["points"][pn][j][1]) + 1.5
        try:
            ref3 = refsd.Ref(sp3)
            table3 = ref3.table()
            ok3 = ref3.min_dist >= 1e-6
        except (X.IllConditioned, RecursionError):
            ok3 = False
        if ok3:
            old_y = m.points[pn][j][1]
            try:
                m.points[pn][j][1] = float(old_y) + 1.5          # the list object stays the same
                m.reset_cache()
                for nme in names:
                    for k, t in enumerate(times):
                        v = E[nme](t)
                        counters["points_edit_cells"] = counters.get("points_edit_cells", 0) + 1
                        if not X.close(v, table3[nme][k], rel=tol, ab=1e-9):
                            return dict(mech="value:" + kind_of(sp, nme), channel="point of lookup %s moved in place, cache reset" % pn, element=nme, t=t, got=float(v),
                                        expected=table3[nme][k])
            except Exception as e:
                return dict(mech="call-exception", channel="points edited in place", error=repr(e)[:200])
            finally:
                m.points[pn][j][1] = old_y
                m.reset_cache()
    # --- channel 3: Element.plot(return_df=True) ---------------------------
    for nme in names[-3:]:
        try:
            pdf = E[nme].plot(return_df=True)
        except Exception as e:
            return dict(mech="plot-exception", element=nme, error=repr(e)[:200])
        for k, t in enumerate(times):
            i = lookup_time(pdf.index, t)
            if i is None:
                return dict(mech="missing-grid-time", channel="plot", element=nme, t=t, index=[float(x) for x in pdf.index][:60])
            counters["plot_cells"] = counters.get("plot_cells", 0) + 1
            if not X.close(pdf[nme][i], table[nme][k], rel=tol, ab=1e-9):
                return dict(mech="value:" + kind_of(sp, nme), channel="plot", element=nme, t=t, got=float(pdf[nme][i]), expected=table[nme][k])
    return None


def kind_of(sp, name):
    for e in sp["elements"]:
        if e["name"] == name:
            return e["kind"]
    return "?"
