"""C07 - a scenario's settings determine its results exactly.

Full product kind x channel x model; oracle = the reference interpreter on the
model spec with the overrides substituted (vlib.refsd), i.e. "the same model
built directly with these values and simulated from the scenario's start to its
stop with its dt".  A wrapper on the runner records the run spec the simulation
actually used (witness detail)."""
import copy
import itertools
import json
import os
import random
from decimal import Decimal as D

from vlib import refsd, spec as S, xmile as XM
from vlib import expr as X

ID = "C07"
LEVEL = "exploration"
TECHNIQUE = "fresh-build differential (reference interpreter on the spec with overrides) over the kind x channel x model table"
RULE = ("kind in {none, constant, two constants, all points, only-some points, constants+points, runspec start / stop / dt / all / start=0 (DSL)} x "
        "channel in {dict registration, manager base values (+ a scenario overriding them), one JSON file, manager spread over two JSON files, "
        "begin_session settings, REST /run settings} x model in {4 SD-DSL shapes incl. one built on dt()/starttime()/stoptime()/delay/pulse (object and file-based), 2 XMILE-sourced shapes}; 2 value draws "
        "(quick) / 8 (thorough). distinct_nontrivial = distinct (kind, channel, model) cells whose overridden trajectory differs from the "
        "model's own trajectory (so that an ignored override is visible).")
ASSUMPTIONS = ["runspec overrides are generated for SD-DSL models only (as the property states)", "values compared at 1e-9 relative on the scenario's own decimal grid"]
REQUIRED = {"joint_calls": 100, "file_rereads": 40, "re_registrations": 20, "cells_compared": 3000, "scenarios_run": 150}
BUDGET_S = {"quick": 110, "thorough": 1500}

P1 = [[0.0, 1.0], [3.0, 4.0], [8.0, 0.5]]
P2 = [[0.0, 0.2], [20.0, 1.0], [60.0, 0.1]]
ALT_P1 = [[[0.0, 2.0], [8.0, 2.0]], [[0.0, 0.0], [2.0, 5.0], [6.0, 1.0]], [[1.0, 3.0], [4.0, 0.5], [9.0, 2.5]]]
ALT_P2 = [[[0.0, 1.0], [50.0, 0.0]], [[0.0, 0.5], [10.0, 0.7], [30.0, 0.1]]]


def shapes():
    T = ["time"]
    r = lambda n: ["ref", n]
    n = lambda v: ["num", v]
    sh = {}
    sh["D1"] = dict(build="dsl", run=dict(start="0", stop="8", dt="1"), points=dict(p1=P1, p2=P2), elements=[
        dict(name="a", kind="constant", value=0.25), dict(name="b", kind="constant", value=2.0),
        dict(name="g", kind="converter", eq=["lookup", T, "p1"]),
        dict(name="f", kind="flow", eq=["bin", "+", ["bin", "*", r("a"), r("s")], r("g")]),
        dict(name="o", kind="biflow", eq=["bin", "*", ["lookup", r("s"), "p2"], r("b")]),
        dict(name="s", kind="stock", init=10.0, eq=["bin", "-", r("f"), r("o")])])
    sh["D2"] = dict(build="dsl", run=dict(start="1", stop="6", dt="0.5"), points=dict(p1=P1), elements=[
        dict(name="k", kind="constant", value=0.3), dict(name="cap", kind="constant", value=50.0),
        dict(name="ratio", kind="converter", eq=["bin", "/", r("pop"), r("cap")]),
        dict(name="growth", kind="flow", eq=["bin", "*", ["bin", "*", r("k"), r("pop")], ["bin", "-", n(1.0), r("ratio")]]),
        dict(name="eff", kind="converter", eq=["lookup", ["bin", "*", r("ratio"), n(10.0)], "p1"]),
        dict(name="pop", kind="stock", init=5.0, eq=r("growth")),
        dict(name="acc", kind="stock", init=0.0, eq=r("eff"))])
    sh["D3"] = dict(build="dsl", run=dict(start="0", stop="4", dt="0.25"), points=dict(p1=P1, p2=P2), elements=[
        dict(name="thr", kind="constant", value=1.6), dict(name="h", kind="constant", value=2.0),
        dict(name="sw", kind="converter", eq=["if", ["cmp", ">", T, r("thr")], r("h"), n(0.0)]),
        dict(name="z", kind="converter", eq=["bin", "+", ["lookup", r("q"), "p1"], ["lookup", T, "p2"]]),
        dict(name="q", kind="stock", init=0.0, eq=["bin", "-", r("sw"), ["bin", "*", r("q"), n(0.25)]])])
    # run-spec built-ins: dt(), starttime(), stoptime(), delay and pulse must follow a scenario's run-spec overrides
    sh["D4"] = dict(build="dsl", run=dict(start="0", stop="6", dt="0.5"), points=dict(p1=P1), elements=[
        dict(name="a", kind="constant", value=0.25),
        dict(name="d2", kind="converter", eq=["bin", "*", ["dt"], n(2.0)]),
        dict(name="win", kind="converter", eq=["bin", "-", ["stoptime"], ["starttime"]]),
        dict(name="g", kind="converter", eq=["lookup", T, "p1"]),
        dict(name="dl", kind="converter", eq=["delay", "s", 1.0, 0.5]),
        dict(name="dl0", kind="converter", eq=["delay", "g", 0.5, None]),
        dict(name="f", kind="flow", eq=["bin", "+", ["bin", "+", ["pulse", 2.0, 1.0, 2.0], r("a")], ["bin", "*", r("d2"), r("g")]]),
        dict(name="s", kind="stock", init=1.0, eq=["bin", "-", r("f"), ["bin", "*", r("dl"), n(0.1)]])])
    # XMILE shapes: spec for the reference + element list for the document; names chosen so that the
    # transpiler's sanitised names are the spec names
    sh["X1"] = dict(build="xmile", run=dict(start="0", stop="8", dt="0.5"), points=dict(gfv=XM.gf_points(dict(xscale=(0, 8), ypts=[1, 3, 2, 5, 4]))), elements=[
        dict(name="rate", kind="constant", value=0.05), dict(name="gfv", kind="converter", eq=["lookup", T, "gfv"]),
        dict(name="inFlow", kind="biflow", eq=["bin", "*", r("rate"), r("stockA")]),
        dict(name="out", kind="biflow", eq=r("gfv")),
        dict(name="stockA", kind="stock", init=100.0, eq=["bin", "-", r("inFlow"), r("out")])],
        xml=[dict(kind="stock", name="Stock A", eqn="100", inflows=["in_flow"], outflows=["out"]),
             dict(kind="flow", name="in flow", eqn="rate * Stock_A"), dict(kind="flow", name="out", eqn="gfv"),
             dict(kind="aux", name="rate", eqn="0.05"),
             dict(kind="aux", name="gfv", eqn="TIME", gf=dict(xscale=(0, 8), ypts=[1, 3, 2, 5, 4]))])
    sh["X2"] = dict(build="xmile", run=dict(start="1", stop="7", dt="0.25"), points=dict(eff=XM.gf_points(dict(xpts=[0, 1, 2, 4], ypts=[0.5, 1.5, 1.0, 3.0]))), elements=[
        dict(name="frac", kind="constant", value=0.3), dict(name="base", kind="constant", value=1.0),
        dict(name="eff", kind="converter", eq=["lookup", ["bin", "/", r("level"), n(10.0)], "eff"]),
        dict(name="drain", kind="flow", eq=["bin", "-", ["bin", "*", r("level"), r("frac")], r("base")]),
        dict(name="fill", kind="biflow", eq=r("eff")),
        dict(name="level", kind="stock", init=20.0, eq=["bin", "-", r("fill"), r("drain")])],
        xml=[dict(kind="stock", name="level", eqn="20", inflows=["fill"], outflows=["drain"]),
             dict(kind="flow", name="drain", eqn="level * frac - base", non_negative=True), dict(kind="flow", name="fill", eqn="eff"),
             dict(kind="aux", name="frac", eqn="0.3"), dict(kind="aux", name="base", eqn="1"),
             dict(kind="aux", name="eff", eqn="level / 10", gf=dict(xpts=[0, 1, 2, 4], ypts=[0.5, 1.5, 1.0, 3.0]))])
    return sh


SHAPES = shapes()
CONSTS = {"D4": ["a"], "D1": ["a", "b"], "D2": ["k", "cap"], "D3": ["thr", "h"], "X1": ["rate"], "X2": ["frac", "base"]}
CVALS = {"a": [0.1, 0.4], "b": [1.0, 3.5], "k": [0.1, 0.5], "cap": [20.0, 80.0], "thr": [0.6, 2.9], "h": [1.0, 5.0],
         "rate": [0.02, 0.1], "frac": [0.1, 0.5], "base": [0.0, 2.0]}
KINDS = ["none", "const1", "const2", "points_all", "points_some", "const_points", "rs_start", "rs_stop", "rs_dt", "rs_all", "rs_zero", "const_numpy"]
CHANNELS = ["dict", "base", "file1", "file2", "session", "rest"]


def overrides(shape, kind, draw):
    sp = SHAPES[shape]
    rng = random.Random(hash((shape, kind, draw)) & 0xffffff)
    o = {}
    cs = CONSTS[shape]
    if kind in ("const1", "const_points"):
        o["constants"] = {cs[0]: rng.choice(CVALS[cs[0]])}
    if kind == "const2":
        o["constants"] = {c: rng.choice(CVALS[c]) for c in cs}
    if kind == "const_numpy":
        # values as they come out of numpy / pandas (np.float64, np.int64) and as a numeric string
        import numpy as np
        wrap = [np.float64, lambda v: np.int64(round(v)) , lambda v: repr(float(v))]
        o["constants"] = {c: wrap[(i + draw) % 3](rng.choice(CVALS[c])) for i, c in enumerate(cs)}
    pn = sorted(sp["points"])
    if kind in ("points_all", "const_points"):
        o["points"] = {p: copy.deepcopy(rng.choice(ALT_P1 if i == 0 else ALT_P2)) for i, p in enumerate(pn)}
    if kind == "points_some":
        o["points"] = {pn[0]: copy.deepcopy(rng.choice(ALT_P1))}
    run = sp["run"]
    st, sto, dt = D(run["start"]), D(run["stop"]), D(run["dt"])
    if kind == "rs_start":
        o["runspecs"] = {"starttime": float(st + 2 * dt)}
    if kind == "rs_stop":
        o["runspecs"] = {"stoptime": float(sto - 2 * dt)}
    if kind == "rs_dt":
        o["runspecs"] = {"dt": float(dt / 2)}
    if kind == "rs_zero":
        o["runspecs"] = {"starttime": 0.0 if draw % 2 else 0}     # exactly zero (float and int): must not be read as "not given"
    if kind == "rs_all":
        o["runspecs"] = {"starttime": float(st + 1), "stoptime": float(sto + 1), "dt": float(dt / 2)}
    return o


def gen_cases(tier, seed):
    draws = 2 if tier == "quick" else 8
    cases = []
    for shape in SHAPES:
        for kind in KINDS:
            if kind.startswith("rs_") and SHAPES[shape]["build"] != "dsl":
                continue
            if kind == "const2" and len(CONSTS[shape]) < 2:
                continue
            if kind == "rs_zero" and float(SHAPES[shape]["run"]["start"]) == 0.0:
                continue
            if kind == "points_some" and len(SHAPES[shape]["points"]) < 2:
                continue
            for ch in CHANNELS:
                if kind == "const_numpy" and ch in ("file1", "file2", "rest"):
                    continue        # JSON cannot carry numpy scalars
                for d in range(draws):
                    host = "object"
                    if SHAPES[shape]["build"] == "dsl" and ch in ("file1", "file2"):
                        host = "file"
                    cases.append(dict(shape=shape, kind=kind, channel=ch, draw=d + seed * 100, host=host))
    rng = random.Random(seed)
    rng.shuffle(cases)
    return cases


def EXHAUSTIVE(tier):
    return True


def spec_with(shape, o):
    sp = copy.deepcopy({k: v for k, v in SHAPES[shape].items() if k not in ("xml", "build")})
    for e in sp["elements"]:
        if e["kind"] == "constant" and e["name"] in o.get("constants", {}):
            e["value"] = float(o["constants"][e["name"]])
    for p, pts in o.get("points", {}).items():
        sp["points"][p] = pts
    rs = o.get("runspecs", {})
    run = sp["run"]
    if "starttime" in rs:
        run["start"] = repr(rs["starttime"])
    if "stoptime" in rs:
        run["stop"] = repr(rs["stoptime"])
    if "dt" in rs:
        run["dt"] = repr(rs["dt"])
    return sp


_uses = {"n": 0, "runspecs": []}


def worker_init():
    # witness detail: which run spec did the simulation actually use?
    try:
        from BPTK_Py.sdsimulation import SdSimulation
        orig = SdSimulation.start

        def start(self, *a, **k):
            try:
                _uses["runspecs"].append((getattr(self.mod, "starttime", None), getattr(self.mod, "stoptime", None), getattr(self.mod, "dt", None)))
                del _uses["runspecs"][:-5]
            except Exception:
                pass
            return orig(self, *a, **k)
        SdSimulation.start = start
    except Exception:
        pass


def materialise(shape, modname):
    """Writes models/<modname>.(py|stmx) in the cwd; returns manager dict fragment."""
    sp = SHAPES[shape]
    os.makedirs("models", exist_ok=True)
    if sp["build"] == "xmile":
        xml = XM.document(modname, sp["run"], sp["xml"])
        with open("models/%s.stmx" % modname, "w") as f:
            f.write(xml)
        return {"model": "models/%s" % modname, "source": "models/%s.stmx" % modname}
    spec = {k: v for k, v in sp.items() if k not in ("xml", "build")}
    with open("models/%s.py" % modname, "w") as f:
        f.write("import json\nfrom BPTK_Py import Model\nfrom vlib import spec as S\nSPEC = json.loads(%r)\n\n\n"
                "class simulation_model(Model):\n    def __init__(self):\n        run = SPEC['run']\n"
                "        super().__init__(starttime=float(run['start']), stoptime=float(run['stop']), dt=float(run['dt']), name='filedsl')\n"
                "        S.populate(self, SPEC)\n" % json.dumps(spec))
    return {"model": "models/%s" % modname}


def run_case(case):
    from BPTK_Py import bptk
    import importlib
    counters = {}
    shape, kind, ch = case["shape"], case["kind"], case["channel"]
    sp = SHAPES[shape]
    o = overrides(shape, kind, case["draw"])
    names = [e["name"] for e in sp["elements"]]
    _uses["n"] += 1
    modname = "m%d_%d" % (os.getpid(), _uses["n"])
    for f in os.listdir("scenarios"):
        os.remove(os.path.join("scenarios", f))
    # expected trajectories: scenario "sc" carries the overrides, "plain" none, "ovr" overrides a base value again
    exp = {}
    try:
        exp["sc"] = refsd.Ref(spec_with(shape, o))
        exp["sc_table"] = exp["sc"].table()
        exp["plain"] = refsd.Ref(spec_with(shape, {}))
        exp["plain_table"] = exp["plain"].table()
    except X.IllConditioned:
        return dict(verdict="illcond", counters={"illcond": 1})
    scen = {"sc": copy.deepcopy(o)}
    second = None
    b = None
    w = None
    try:
        if ch in ("file1", "file2") or sp["build"] == "xmile" or case["host"] == "file":
            frag = materialise(shape, modname)
            importlib.invalidate_caches()
        else:
            model, _E = S.build_dsl({k: v for k, v in sp.items() if k not in ("xml", "build")}, name="c07")
            frag = {"model": model}
        if ch == "base":
            o2 = {}
            base = {}
            if "constants" in o:
                base["base_constants"] = copy.deepcopy(o["constants"])
                c0 = sorted(o["constants"])[0]
                o2["constants"] = {c0: CVALS[c0][0] if o["constants"][c0] != CVALS[c0][0] else CVALS[c0][1]}
            if "points" in o:
                base["base_points"] = copy.deepcopy(o["points"])
            if "runspecs" in o:
                scen_sc = {"runspecs": copy.deepcopy(o["runspecs"])}   # run specs have no manager-level form
            else:
                scen_sc = {}
            scen = {"sc": scen_sc, "sib": copy.deepcopy(scen_sc), "ovr": copy.deepcopy(dict(scen_sc, **o2))}
            second = ("ovr", dict(o, **({"constants": dict(o.get("constants", {}), **o2.get("constants", {}))} if o2 else {})))
            mgr = dict(frag, scenarios=scen, **base)
            b = bptk()
            b.register_scenario_manager({"sm": mgr})
        elif ch == "dict":
            scen["plain"] = {}
            b = bptk()
            b.register_scenario_manager({"sm": dict(frag, scenarios=scen)})
        elif ch == "file1":
            scen["plain"] = {}
            with open("scenarios/%s.json" % modname, "w") as f:
                json.dump({"sm": dict(frag, scenarios=scen)}, f)
            b = bptk()
        elif ch == "file2":
            base = {}
            if "constants" in o:
                base["base_constants"] = copy.deepcopy(o["constants"])
            if "points" in o:
                base["base_points"] = copy.deepcopy(o["points"])
            scen_sc = {"runspecs": copy.deepcopy(o["runspecs"])} if "runspecs" in o else {}
            with open("scenarios/%s_a.json" % modname, "w") as f:
                json.dump({"sm": dict(frag, scenarios={}, **base)}, f)
            with open("scenarios/%s_b.json" % modname, "w") as f:
                json.dump({"sm": dict(frag, scenarios={"sc": scen_sc})}, f)
            b = bptk()
        elif ch in ("session", "rest"):
            b = bptk()
            pre = {}
            if case["draw"] % 2 == 1:
                # the scenario already overrides the same constants / lookups with OTHER values: the delivered settings must win
                if "constants" in o:
                    pre["constants"] = {c: 11.5 for c in o["constants"]}
                if "points" in o:
                    pre["points"] = {p: [[0.0, 7.0], [9.0, 7.0]] for p in o["points"]}
            b.register_scenario_manager({"sm": dict(frag, scenarios={"sc": pre, "plain": {}})})
            if (case["draw"] + KINDS.index(kind) + len(shape)) % 2 == 0 or kind.startswith("rs_"):
                # ... and it has been run before with its old settings (stale caches / cached grids must not survive the delivery)
                b.run_scenarios(scenarios=["sc"], scenario_managers=["sm"], equations=list(names), return_format="dict")
        if "sm" not in b.scenario_manager_factory.scenario_managers or "sc" not in b.scenario_manager_factory.scenario_managers["sm"].scenarios:
            w = dict(kind="scenario-not-loaded", managers=list(b.scenario_manager_factory.scenario_managers))
        # ---- obtain results -------------------------------------------------
        results = {}
        if w is None and ch == "session":
            run = exp["sc"].run
            b.begin_session(scenarios=["sc"], scenario_managers=["sm"], settings={"sm": {"sc": copy.deepcopy(o)}}, equations=list(names),
                            starttime=float(run["start"]), dt=float(run["dt"]))
            got = {nme: {} for nme in names}
            for i in range(len(exp["sc"].times) + 3):
                r = b.run_step()
                if r is None or "msg" in r:
                    break
                for nme in names:
                    for t, v in r["sm"]["sc"].get(nme, {}).items():
                        got[nme][float(t)] = float(v)
            b.end_session()
            results["sc"] = got
        elif w is None and ch == "rest":
            from BPTK_Py.server import BptkServer
            app = BptkServer(__name__, lambda: b)
            resp = app.test_client().post("/run", json={"scenario_managers": ["sm"], "scenarios": ["sc"], "equations": list(names),
                                                       "settings": {"sm": {"sc": copy.deepcopy(o)}}})
            if resp.status_code != 200:
                w = dict(kind="rest-status", status=resp.status_code, body=resp.get_data(as_text=True)[:300])
            else:
                js = json.loads(resp.get_data(as_text=True))
                results["sc"] = {nme: {float(t): float(v) for t, v in js["sm"]["sc"]["equations"].get(nme, {}).items()} for nme in names}
        if w is None and ch == "base" and ("constants" in o or "points" in o):
            # a later settings delivery to one scenario must not rewrite the manager's base values for its siblings
            other = {}
            if "constants" in o:
                c0 = sorted(o["constants"])[0]
                other["constants"] = {c0: 7.75}
            if "points" in o:
                p0 = sorted(o["points"])[0]
                other["points"] = {p0: [[0.0, 9.0], [5.0, 9.0]]}
            b.begin_session(scenarios=["sc"], scenario_managers=["sm"], settings={"sm": {"sc": other}}, equations=list(names)[:2])
            b.run_step()
            b.end_session()
            b.register_scenarios({"late": copy.deepcopy(scen["sib"])}, "sm")     # registered after the delivery: base values still apply
            for sname in ("sib", "late"):
                b.reset_scenario_cache(scenario_manager="sm", scenario=sname)
                dfx = b.run_scenarios(scenarios=[sname], scenario_managers=["sm"], equations=list(names), return_format="dict")
                counters["scenarios_run"] = counters.get("scenarios_run", 0) + 1
                eqs = dfx["sm"][sname]["equations"]
                results["sc+" + sname] = {nme: {float(t): float(v) for t, v in eqs[nme].items()} for nme in names if nme in eqs}
            del b.scenario_manager_factory.scenario_managers["sm"].scenarios["sc"]    # sc itself now carries the session settings: not compared again
        if w is None:
            todo = [s for s in ("sc", "plain", "ovr") if s in b.scenario_manager_factory.scenario_managers["sm"].scenarios]
            for sname in todo:
                if sname == "sc" and ch in ("session", "rest"):
                    # the settings given through the session / REST persist in the scenario: a later batch run must agree as well
                    pass
                df = b.run_scenarios(scenarios=[sname], scenario_managers=["sm"], equations=list(names), return_format="dict")
                counters["scenarios_run"] = counters.get("scenarios_run", 0) + 1
                try:
                    eqs = df["sm"][sname]["equations"]
                    res = {nme: {float(t): float(v) for t, v in eqs[nme].items()} for nme in names if nme in eqs}
                except Exception as e:
                    res = {}
                results.setdefault(sname + ("+batch" if sname in results else ""), res)
            if len(todo) >= 2:
                # all of them in ONE call (dict format): every scenario still comes back on its own grid with its own values
                try:
                    dfj = b.run_scenarios(scenarios=list(todo), scenario_managers=["sm"], equations=list(names), return_format="dict")
                    for sname in todo:
                        eqs = dfj["sm"][sname]["equations"]
                        results[sname + "+joint-call"] = {nme: {float(t): float(v) for t, v in eqs[nme].items()} for nme in names if nme in eqs}
                    counters["joint_calls"] = counters.get("joint_calls", 0) + 1
                except Exception as e:
                    w = dict(kind="exception:" + type(e).__name__, error=repr(e)[:300], where="joint call")
        if w is None and ch in ("file1", "file2") and ("constants" in o or "points" in o):
            # a session delivers OTHER settings to the file-defined scenario; the scenario is then read from its file again (reset_scenario), and a
            # second engine in the same process reads the same files: both must run with the file's values
            try:
                other = {}
                if "constants" in o:
                    other["constants"] = {sorted(o["constants"])[0]: 7.75}
                if "points" in o:
                    other["points"] = {sorted(o["points"])[0]: [[0.0, 9.0], [5.0, 9.0]]}
                b.begin_session(scenarios=["sc"], scenario_managers=["sm"], settings={"sm": {"sc": other}}, equations=list(names)[:2])
                b.run_step()
                b.end_session()
                b.reset_scenario(scenario_manager="sm", scenario="sc")
                dfx = b.run_scenarios(scenarios=["sc"], scenario_managers=["sm"], equations=list(names), return_format="dict")
                eqs = dfx["sm"]["sc"]["equations"]
                results["sc+read-from-its-file-again-after-session-settings"] = {nme: {float(t): float(v) for t, v in eqs[nme].items()} for nme in names if nme in eqs}
                b2 = bptk()
                try:
                    dfx = b2.run_scenarios(scenarios=["sc"], scenario_managers=["sm"], equations=list(names), return_format="dict")
                    eqs = dfx["sm"]["sc"]["equations"]
                    results["sc+second-engine-reading-the-same-files"] = {nme: {float(t): float(v) for t, v in eqs[nme].items()} for nme in names if nme in eqs}
                finally:
                    b2.destroy()
                counters["file_rereads"] = counters.get("file_rereads", 0) + 2
                counters["scenarios_run"] = counters.get("scenarios_run", 0) + 2
            except Exception as e:
                import traceback
                w = dict(kind="exception:" + type(e).__name__, error=traceback.format_exc()[-400:], where="re-read from file")
        if w is None and ch in ("dict", "file1") and o:
            # the scenario registered again under the same name WITHOUT its overrides: nothing of the previous definition (constants, points,
            # run specs written into its model) may survive - it must now equal the plain scenario
            try:
                b.register_scenarios({"sc": {}}, "sm")
                df = b.run_scenarios(scenarios=["sc"], scenario_managers=["sm"], equations=list(names), return_format="dict")
                counters["scenarios_run"] = counters.get("scenarios_run", 0) + 1
                counters["re_registrations"] = counters.get("re_registrations", 0) + 1
                eqs = df["sm"]["sc"]["equations"]
                results["plain+sc-registered-again-without-overrides"] = {nme: {float(t): float(v) for t, v in eqs[nme].items()} for nme in names if nme in eqs}
            except Exception as e:
                w = dict(kind="exception:" + type(e).__name__, error=repr(e)[:300], where="re-registration")
        # ---- compare ----------------------------------------------------------
        if w is None:
            for key, got in results.items():
                sname = key.split("+")[0]
                if sname == "sc":
                    ref, table = exp["sc"], exp["sc_table"]
                elif sname == "plain":
                    ref, table = exp["plain"], exp["plain_table"]
                else:
                    ref = refsd.Ref(spec_with(shape, second[1]))
                    table = ref.table()
                for nme in names:
                    if nme not in got or not got[nme]:
                        w = dict(kind="missing-equation", scenario=key, equation=nme)
                        break
                    ts = sorted(got[nme])
                    if len(ts) != len(ref.times) or any(abs(a - bb) > 1e-9 for a, bb in zip(ts, ref.times)):
                        w = dict(kind="grid", scenario=key, equation=nme, got=[ts[0], ts[-1], len(ts)], expected=[ref.times[0], ref.times[-1], len(ref.times)],
                                 runspec_used=_uses["runspecs"][-1:] )
                        break
                    for k, t in enumerate(ts):
                        counters["cells_compared"] = counters.get("cells_compared", 0) + 1
                        if not X.close(got[nme][t], table[nme][k], rel=1e-9, ab=1e-9):
                            w = dict(kind="value", scenario=key, equation=nme, t=t, got=got[nme][t], expected=table[nme][k])
                            break
                    if w:
                        break
                if w:
                    break
    except Exception as e:
        import traceback
        w = dict(kind="exception:" + type(e).__name__, error=traceback.format_exc()[-700:])
    finally:
        if b is not None:
            b.destroy()
        for ext in (".py", ".stmx"):
            try:
                os.remove("models/%s%s" % (modname, ext))
            except OSError:
                pass
    differs = exp["sc_table"] != exp["plain_table"] or exp["sc"].times != exp["plain"].times
    nt = "%s|%s|%s" % (kind, ch, shape) if (differs or kind == "none") else None
    if w is not None:
        return dict(verdict="violated", nt=nt, counters=counters, mech="%s:%s:%s" % (w["kind"], kind.split("_")[0] if not kind.startswith("rs") else kind, ch if ch.startswith("file") else "any"),
                    witness=dict(first=w, case=case, overrides=o))
    return dict(verdict="held", nt=nt, counters=counters, sample=dict(case=case, overrides=o))
