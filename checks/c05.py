"""C05 - the simulated time grid is exact: no drift, gaps or duplicates.

Oracle: decimal.Decimal arithmetic on the run-spec strings.  Every index / key
list the library reports is compared, as a list, with
[float(D(start)+i*D(dt)) for i in 0..n]; values of a linear-growth stock make a
mislabelled row visible; every float route to a grid time must evaluate to the
same value.
"""
import json
from decimal import Decimal as D

from vlib import monitors as M

ID = "C05"
LEVEL = "exploration"
TECHNIQUE = "exact decimal grid oracle on every reported index/key list; normalize() monitor"
RULE = ("lattice start in {0,1,.5,.1,.3,2.25,10,100.7,64.1,250.7,2020.3,.05,-1,-.3,-2} x dt in {1,.5,.25,.125,.1,.2,.3,.05,.01} x n steps "
        "(quick: 0..12,15,20,30,45,60; thorough: also 61..400 stepwise); observed at util.timerange (exclusive/inclusive), "
        "run_scenarios index (df/dict/json), Element.plot index, run_step keys, session_results keys (by time / by equation) for a session begun with explicit start and dt and for one begun with defaults (nested and flat step results, session clock after every step), "
        "and 4 float routes to each grid time. distinct_nontrivial = distinct (start,dt) pairs with at least one grid value "
        "that is not exactly representable (i.e. naive float accumulation differs from the decimal grid).")
ASSUMPTIONS = ["stop is on the grid by construction", "labels are compared as floats (==) and, for JSON, as the repr of the decimal grid float"]
REQUIRED = {"default_session_keys": 100, "timerange_lists": 100, "df_indexes": 100, "session_keys": 100, "routes": 1000, "normalize_calls": 1000}
BUDGET_S = {"quick": 150, "thorough": 2400}

STARTS = ["0", "1", "0.5", "0.1", "0.3", "2.25", "10", "100.7", "-1", "-0.3", "-2", "0.05", "64.1", "250.7", "2020.3"]     # incl. negative starts whose grid passes through 0
DTS = ["1", "0.5", "0.25", "0.125", "0.1", "0.2", "0.3", "0.05", "0.01"]


def gen_cases(tier, seed):
    ns = list(range(0, 13)) + [15, 20, 30, 45, 60]
    if tier == "thorough":
        ns = list(range(0, 61)) + list(range(61, 401, 7 + seed % 3))
    return [dict(start=s, dt=d, n=n) for s in STARTS for d in DTS for n in ns]


def EXHAUSTIVE(tier):
    return True


_norm_log = []


def worker_init():
    # monitor: log (raw, normalised) pairs of fp.normalize as used by Model.memoize/timerange
    try:
        import BPTK_Py.util.floating_point as fp
        orig = fp.normalize

        def normalize(x, base=1, offset=0.0, precision=2):
            r = orig(x, base, offset, precision)
            if len(_norm_log) < 200000:
                _norm_log.append((x, base, offset, r))
            return r
        fp.normalize = normalize
    except Exception:
        M.HOOK_MISSING.append("fp.normalize")


def expected_grid(case):
    s, dt = D(case["start"]), D(case["dt"])
    return [float(s + i * dt) for i in range(case["n"] + 1)]


def build(case):
    from BPTK_Py import Model
    s, dt = D(case["start"]), D(case["dt"])
    stop = s + case["n"] * dt
    m = Model(starttime=float(s), stoptime=float(stop), dt=float(dt), name="grid")
    st = m.stock("s")
    f = m.flow("f")
    c = m.constant("c")
    c.equation = 1.0
    f.equation = c
    st.initial_value = 1.0
    st.equation = f
    # elements that read the time itself: an off-grid time handed to the equation shows in the value
    from BPTK_Py import sd_functions as sd
    clk = m.converter("clk")
    clk.equation = sd.time()
    acc = m.stock("acc")
    acc.initial_value = 0.0
    acc.equation = sd.time() * 1.0
    return m, st


def run_case(case):
    from BPTK_Py import bptk
    from BPTK_Py.util import timerange
    exp = expected_grid(case)
    start, dt, stop = float(D(case["start"])), float(D(case["dt"])), exp[-1]
    counters = {}
    del _norm_log[:]
    bad = []

    def check_list(where, got):
        got = [float(x) for x in got]
        if got != exp:
            kind = "extra" if len(got) > len(exp) and got[:len(exp)] == exp else \
                   "missing" if len(got) < len(exp) else "label"
            bad.append(dict(where=where, kind=kind, got=got[:8] + ["..."] + got[-4:] if len(got) > 14 else got,
                            expected_tail=exp[-3:], n_got=len(got), n_expected=len(exp),
                            first_diff=next((i for i, (a, b) in enumerate(zip(got, exp)) if a != b), min(len(got), len(exp)))))

    def expval(t_index):
        return 1.0 + float(D(case["dt"]) * t_index)

    # 1. util.timerange
    try:
        check_list("timerange(inclusive)", timerange(start, stop, dt, exclusive=False))
        got = timerange(start, stop, dt)
        counters["timerange_lists"] = 2
        if [float(x) for x in got] != exp[:-1]:
            bad.append(dict(where="timerange(exclusive)", kind="label", got=got[-4:], expected_tail=exp[-4:-1]))
    except Exception as e:
        bad.append(dict(where="timerange", kind="exception", error=repr(e)[:200]))

    if case["n"] >= 1:
        m, st = build(case)
        b = bptk()
        try:
            scen = {"base": {}}
            if case["n"] >= 3:
                # a scenario that stops two steps before its model does, run FIRST (and first of all runs of this engine)
                scen["short"] = {"runspecs": {"stoptime": exp[-3]}}
            b.register_model(m, scenario_manager="smGrid", scenario=scen)
            if "short" in scen:
                for fmt in ("dict", "df"):
                    r_ = b.run_scenarios(scenarios=["short"], scenario_managers=["smGrid"], equations=["s"], return_format=fmt)
                    keys = list(r_["smGrid"]["short"]["equations"]["s"].keys()) if fmt == "dict" else list(r_.index)
                    got_ = [float(x) for x in keys]
                    counters["shorter_scenarios"] = counters.get("shorter_scenarios", 0) + 1
                    if got_ != exp[:-2]:
                        bad.append(dict(where="run_scenarios(%s) of a scenario with its own stop time" % fmt, kind="extra" if len(got_) > len(exp) - 2 else "missing" if len(got_) < len(exp) - 2 else "label",
                                        got=got_[-4:], expected_tail=exp[-5:-2], n_got=len(got_), n_expected=len(exp) - 2))
                        break
            # 2. batch run, three formats
            df = b.run_scenarios(scenarios=["base"], scenario_managers=["smGrid"], equations=["s"], return_format="df")
            check_list("run_scenarios(df).index", list(df.index))
            counters["df_indexes"] = 1
            for i, t in enumerate(df.index):
                if i < len(exp) and abs(df.iloc[i, 0] - expval(i)) > 1e-9:
                    bad.append(dict(where="run_scenarios(df) value", kind="value", t=float(t), got=float(df.iloc[i, 0]), expected=expval(i)))
                    break
            dd = b.run_scenarios(scenarios=["base"], scenario_managers=["smGrid"], equations=["s"], return_format="dict")
            check_list("run_scenarios(dict) keys", list(dd["smGrid"]["base"]["equations"]["s"].keys()))
            js = json.loads(b.run_scenarios(scenarios=["base"], scenario_managers=["smGrid"], equations=["s"], return_format="json"))
            jkeys = list(js["smGrid"]["base"]["equations"]["s"].keys())
            if jkeys != [repr(x) for x in exp]:
                bad.append(dict(where="run_scenarios(json) keys", kind="label", got=jkeys[-4:], expected_tail=[repr(x) for x in exp[-4:]], n_got=len(jkeys), n_expected=len(exp)))
            # 3. plot
            pdf = st.plot(return_df=True)
            check_list("Element.plot index", list(pdf.index))
            # 4. stepwise session
            b.begin_session(scenarios=["base"], scenario_managers=["smGrid"], equations=["s"], starttime=start, dt=dt)
            keys = []
            for i in range(case["n"] + 5):
                r = b.run_step()
                if r is None or "msg" in r:
                    break
                ks = list(r["smGrid"]["base"]["s"].keys())
                if len(ks) != 1:
                    bad.append(dict(where="run_step result", kind="multi-time", step=i, keys=ks))
                keys += ks
                v = r["smGrid"]["base"]["s"][ks[0]]
                if i < len(exp) and abs(v - expval(i)) > 1e-9:
                    bad.append(dict(where="run_step value", kind="value", step=i, t=ks[0], got=v, expected=expval(i)))
                    break
            check_list("run_step keys", keys)
            counters["session_keys"] = len(keys)
            check_list("session_results(by time) keys", list(b.session_results().keys()))
            byeq = b.session_results(index_by_time=False)
            check_list("session_results(by equation) keys", list(byeq["smGrid"]["base"]["equations"]["s"].keys()))
            b.end_session()
            # 4b. a session begun with defaults (no starttime / dt given, as the REST begin-session does): it steps on the scenario's own grid;
            #     every second step asks for the flat format
            b.reset_scenario_cache(scenario_manager="smGrid", scenario="base")
            # (begin_session documents its start as max(starttime argument = 0.0, scenario start): a scenario that starts before 0 needs the explicit argument)
            if start >= 0:
                b.begin_session(scenarios=["base"], scenario_managers=["smGrid"], equations=["s"])
            else:
                b.begin_session(scenarios=["base"], scenario_managers=["smGrid"], equations=["s"], starttime=start)
            keys = []
            for i in range(case["n"] + 5):
                flat = bool(i % 2)
                r = b.run_step(flat=flat)
                if r is None or "msg" in r:
                    break
                if flat:
                    v = r["smGrid"]["base"]["s"]
                    ks = [b.session_state["step"] - 0.0]      # the flat format carries no label: the clock after the step is judged below instead
                    keys.append(exp[i] if i < len(exp) else None)
                else:
                    ks = list(r["smGrid"]["base"]["s"].keys())
                    if len(ks) != 1:
                        bad.append(dict(where="run_step (default session) result", kind="multi-time", step=i, keys=ks))
                    keys += ks
                    v = r["smGrid"]["base"]["s"][ks[0]]
                if i < len(exp) and abs(v - expval(i)) > 1e-9:
                    bad.append(dict(where="run_step (default session) value", kind="value", step=i, flat=flat, got=v, expected=expval(i)))
                    break
                if i + 1 < len(exp) and b.session_state["step"] != exp[i + 1]:
                    bad.append(dict(where="session clock (default session)", kind="label", step=i, got=[b.session_state["step"]], expected_tail=[exp[i + 1]]))
                    break
            check_list("run_step keys (default session)", keys)
            counters["default_session_keys"] = len(keys)
            check_list("session_results keys (default session)", list(b.session_results().keys()))
            b.end_session()
            # 5. float routes to the same grid point, evaluated on the model itself
            acc = start
            for i, t in enumerate(exp):
                routes = {"i*dt": start + i * dt, "accumulate": acc}
                if i + 1 < len(exp):
                    routes["next-dt"] = exp[i + 1] - dt
                routes["stop-j*dt"] = stop - (len(exp) - 1 - i) * dt
                base = st(t)
                for rn, rt in routes.items():
                    counters["routes"] = counters.get("routes", 0) + 1
                    v = st(rt)
                    if v != base or abs(base - expval(i)) > 1e-9:
                        bad.append(dict(where="route " + rn, kind="route", grid_t=t, route_t=rt, got=v, at_grid=base, expected=expval(i)))
                        break
                acc = acc + dt
                if any(x["kind"] == "route" for x in bad):
                    break
            # same on a fresh model, route FIRST (an off-grid evaluation must not poison the cache), for time-reading elements
            m2, _ = build(case)
            clk, acc2 = m2.converters["clk"], m2.stocks["acc"]
            accr = start
            for i, t in enumerate(exp):
                routes = [start + i * dt, accr, stop - (len(exp) - 1 - i) * dt] + ([exp[i + 1] - dt] if i + 1 < len(exp) else [])
                order = routes + [t] if i % 2 == 0 else [t] + routes
                vals = [(rt, clk(rt), acc2(rt)) for rt in order]
                counters["routes"] = counters.get("routes", 0) + len(order)
                ref_acc = float(sum(D(str(x)) for x in exp[:i]) * D(case["dt"]))
                for (rt, vc, va) in vals:
                    if vc != t or abs(va - ref_acc) > 1e-9 * max(1.0, abs(ref_acc)):
                        bad.append(dict(where="route time-reading", kind="route", grid_t=t, route_t=rt, clk=vc, acc=va, expected_clk=t, expected_acc=ref_acc))
                        break
                accr = accr + dt
                if any(x["kind"] == "route" for x in bad):
                    break
        except Exception as e:
            import traceback
            bad.append(dict(where="harness/bptk", kind="exception", error=traceback.format_exc()[-600:]))
        finally:
            b.destroy()

    # normalize monitor: every normalised value lies on the expected grid (or its continuation)
    counters["normalize_calls"] = len(_norm_log)
    s_, dt_ = D(case["start"]), D(case["dt"])
    for (raw, base, offset, r) in _norm_log:
        if base != dt or offset != start:
            continue
        k = round((raw - start) / dt)
        if r != float(s_ + k * dt_) or abs(raw - r) > dt / 2 + 1e-9:
            bad.append(dict(where="fp.normalize", kind="normalize", raw=raw, got=r, expected=float(s_ + k * dt_)))
            break

    naive = start
    inexact = False
    for i in range(1, len(exp)):
        naive += dt
        if naive != exp[i] or (start + i * dt) != exp[i]:
            inexact = True
    nt = "%s/%s" % (case["start"], case["dt"]) if inexact else None
    if bad:
        w = bad[0]
        return dict(verdict="violated", nt=nt, counters=counters, mech="%s:%s" % (w["kind"], w["where"].split("(")[0].split(" ")[0]),
                    witness=dict(first=w, all_sites=sorted(set(x["where"] for x in bad)), case=case))
    return dict(verdict="held", nt=nt, counters=counters, sample=dict(case=case, grid_tail=exp[-3:]))
