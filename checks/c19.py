"""C19 - externalised instance state is restored losslessly.

Oracle: the pre-save responses and session state.  A session history is run
against a server with a FileAdapter; the state is then saved and restored in
one of four ways (per-instance save after each step + lazy restore, /save-state
+ /load-state, timeout + lazy restore, a new server on the same directory) and
session-results / the reconstructed session_state are compared with what was
there before (equality up to one JSON round trip: numeric dict keys may become
strings).  Stepping must keep working after the restore, with and without a body."""
import copy
import os
import json
import random
import tempfile
from decimal import Decimal as D

ID = "C19"
LEVEL = "exploration"
TECHNIQUE = "save/load differential at the HTTP boundary and on the reconstructed session state, over generated session histories and four restore paths"
RULE = ("histories = start in {0,1,3,2.5} x dt in {1,.5,.25,.1} x 1-10 steps x per step {constants, points, {}, no body, run-steps(2|3) sharing one settings object} x compress in {False, True} x "
        "restore path in {lazy restore after dropping the instance, /save-state + /load-state, timeout + lazy restore, new server on the directory}; "
        "plus the adapter layer directly (save_instance / load_instance, and save_state / load_state over a directory that already holds an older file of the same instance at the same clock position, on states of Python-API sessions with explicit start and dt). "
        "distinct_nontrivial = distinct (start, dt, settings pattern, compress, path) combinations with at least 2 steps and at least one "
        "step carrying settings.")
ASSUMPTIONS = ["equality up to one JSON round trip: numeric dict keys are compared as floats, tuples as lists", "the 'lock' flag is not part of the comparison (it is cleared on save by design)"]
REQUIRED = {"streamed_tails": 10, "two_scenario_sessions": 10, "loads_over_live_instance": 10, "twin_restores": 10, "rebegun_sessions": 10, "saves_while_absent": 10, "overwrites_of_existing_state_file": 5, "histories": 100, "restores": 100, "state_fields_compared": 500, "post_restore_steps": 100}
BUDGET_S = {"quick": 110, "thorough": 1500}
PATHS = ["lazy", "save-load", "timeout", "new-server", "save-while-absent", "twin", "replica", "rollback"]


def gen_cases(tier, seed):
    rng = random.Random(1900 + seed)
    cases = []
    n = 160 if tier == "quick" else 5000
    for i in range(n):
        start = rng.choice(["0", "1", "3", "2.5"])
        dt = rng.choice(["1", "0.5", "0.25", "0.1"])
        steps = rng.randint(1, 10)
        pattern = [rng.choice(["const", "points", "empty", "nobody", "const", "steps2const", "steps3empty", "steps2points"]) for _ in range(steps)]
        if i % 3 == 2 and len(pattern) >= 3:
            # a second session begun on the live instance: only ITS logs may be in the state that is saved afterwards
            pattern.insert(rng.randint(1, len(pattern) - 1), "rebegin")
        if i % 7 == 3:
            # the rest of the session is streamed (stream-steps runs to the stop time): what is saved afterwards must include the streamed steps
            pattern.append(rng.choice(["stream-const", "stream-empty", "stream-nobody"]))
        cases.append(dict(layer="rest", start=start, dt=dt, pattern=pattern, compress=bool(i % 2), path=PATHS[(i // 2) % 8], two=(i % 5 == 0), vseed=rng.randrange(10 ** 6)))
    # histories on which even the compressed format loses nothing (start=1, dt=1, the same constant on every step):
    # the compressed mode stays checkable there although its general lossiness is a known finding
    for i in range(24 if tier == "quick" else 400):
        cases.append(dict(layer="rest" if i % 3 else "adapter", start="1", dt="1", pattern=["constR"] * rng.randint(1, 9), compress=True,
                          path=PATHS[i % 4] if i % 3 else "adapter", vseed=rng.randrange(10 ** 6)))
    for i in range(40 if tier == "quick" else 600):
        start = rng.choice(["0", "1", "3", "2.5"])
        dt = rng.choice(["1", "0.5", "0.25", "0.1"])
        steps = rng.randint(1, 8)
        pattern = [rng.choice(["const", "points", "empty", "nobody"]) for _ in range(steps)]
        cases.append(dict(layer="adapter", start=start, dt=dt, pattern=pattern, compress=bool(i % 2), path="adapter", vseed=rng.randrange(10 ** 6)))
    return cases


def canon(x):
    """One JSON round trip as an equivalence: numeric keys -> float, tuples -> lists."""
    if isinstance(x, dict):
        out = {}
        for k, v in x.items():
            try:
                kk = float(k)
            except (TypeError, ValueError):
                kk = k
            out[kk] = canon(v)
        return out
    if isinstance(x, (list, tuple)):
        return [canon(v) for v in x]
    if isinstance(x, bool) or x is None:
        return x
    if isinstance(x, (int, float)):
        return float(x)
    return x


def first_diff(a, b, path=""):
    if type(a) != type(b):
        return "%s: type %s vs %s (%r vs %r)" % (path, type(a).__name__, type(b).__name__, str(a)[:60], str(b)[:60])
    if isinstance(a, dict):
        ka, kb = set(a), set(b)
        if ka != kb:
            return "%s: keys differ: only-before=%s only-after=%s" % (path, sorted(map(str, ka - kb))[:6], sorted(map(str, kb - ka))[:6])
        for k in sorted(a, key=str):
            d = first_diff(a[k], b[k], "%s/%s" % (path, k))
            if d:
                return d
        return None
    if isinstance(a, list):
        if len(a) != len(b):
            return "%s: length %d vs %d" % (path, len(a), len(b))
        for i, (x, y) in enumerate(zip(a, b)):
            d = first_diff(x, y, "%s[%d]" % (path, i))
            if d:
                return d
        return None
    if isinstance(a, float):
        if a == b or (a != a and b != b):      # equal infinities (a model that has run away) and NaN on both sides are equal
            return None
        return None if abs(a - b) <= 1e-12 * max(1.0, abs(a)) else "%s: %r vs %r" % (path, a, b)
    return None if a == b else "%s: %r vs %r" % (path, a, b)


def _settings_for(kind, rng):
    from vlib.srv import MG, SC
    if kind == "const":
        return {MG: {SC: {"constants": {"rate": rng.choice([0.2, 0.6, 0.9]), "cap": rng.choice([20.0, 40.0])} if rng.random() < 0.4 else {"rate": rng.choice([0.2, 0.6, 0.9])}}}}
    if kind == "constR":
        return {MG: {SC: {"constants": {"rate": rng.choice([0.2, 0.6, 0.9])}}}}
    if kind == "points":
        return {MG: {SC: {"points": {"curve": rng.choice([[[0.0, 2.0], [9.0, 2.0]], [[0.0, 1.0], [3.0, 3.0], [8.0, 0.5]]])}}}}
    if kind == "empty":
        return {}
    return None


FIELDS = ["scenario_managers", "scenarios", "equations", "agents", "step", "starttime", "stoptime", "dt", "settings", "settings_log", "results_log"]


def compare_states(before, after, counters):
    for f in FIELDS:
        counters["state_fields_compared"] = counters.get("state_fields_compared", 0) + 1
        if f not in after:
            return "session_state/%s missing after restore" % f
        d = first_diff(canon(before.get(f)), canon(after.get(f)), "session_state/" + f)
        if d:
            return d
    return None


def run_rest(case, counters):
    from vlib import srv
    rng = random.Random(case["vseed"])
    start, dt = float(case["start"]), float(case["dt"])
    stop = float(D(case["start"]) + 40 * D(case["dt"]))
    tmp = tempfile.mkdtemp(prefix="c19_", dir=".")
    clock = srv.Clock()
    apps = []
    scens = [srv.SC, "alt"] if case.get("two") else [srv.SC]
    if case.get("two"):
        counters["two_scenario_sessions"] = counters.get("two_scenario_sessions", 0) + 1

    def settings_for(kind, rng):      # with two scenarios in the session, every non-empty settings object addresses both
        st = _settings_for(kind, rng)
        if case.get("two") and st:
            st[srv.MG]["alt"] = _settings_for(kind, rng)[srv.MG][srv.SC]
        return st
    try:
        with clock:
            factory = srv.bptk_factory(start=start, stop=stop, dt=dt)
            app = srv.make_server(factory, state_dir=tmp, compress=case["compress"])
            apps.append(app)
            c = app.test_client()
            to = {"seconds": 50} if case["path"] == "timeout" else {"hours": 5}
            iid = json.loads(c.post("/start-instance", json={"timeout": to}).get_data(as_text=True))["instance_uuid"]
            r = c.post("/%s/begin-session" % iid, json={"scenario_managers": [srv.MG], "scenarios": scens, "equations": list(srv.EQS)})
            nsteps_done = 0
            for k, kind in enumerate(case["pattern"]):
                clock.advance(seconds=1)
                nsteps_done += 1
                if kind == "rebegin":
                    r = c.post("/%s/begin-session" % iid, json={"scenario_managers": [srv.MG], "scenarios": scens, "equations": list(srv.EQS)})
                    nsteps_done = 0
                    counters["rebegun_sessions"] = counters.get("rebegun_sessions", 0) + 1
                    if r.status_code != 200:
                        return dict(kind="begin-session-failed", status=r.status_code)
                    continue
                if kind.startswith("stream"):
                    st = settings_for(kind[7:], rng) if kind != "stream-nobody" else None
                    r = c.post("/%s/stream-steps" % iid, json={"settings": st}) if st is not None else c.post("/%s/stream-steps" % iid)
                    r.get_data()
                    counters["streamed_tails"] = counters.get("streamed_tails", 0) + 1
                elif kind.startswith("steps"):
                    # one settings object shared by several steps of a run-steps request
                    st = settings_for({"const": "const", "empty": "empty", "points": "points"}[kind[6:]], rng)
                    r = c.post("/%s/run-steps" % iid, json={"numberSteps": int(kind[5]), "settings": st})
                    nsteps_done += int(kind[5]) - 1
                else:
                    st = settings_for(kind, rng)
                    r = c.post("/%s/run-step" % iid, json={"settings": st}) if st is not None else c.post("/%s/run-step" % iid)
                if r.status_code != 200:
                    return dict(kind="run-step-failed-with-adapter", step=k, settings_kind=kind, status=r.status_code, body=r.get_data(as_text=True)[:200])
            before_results = json.loads(c.get("/%s/session-results" % iid).get_data(as_text=True))
            before_flat = json.loads(c.get("/%s/flat-session-results" % iid).get_data(as_text=True))
            before_state = copy.deepcopy(app._instance_manager._instances[iid]["instance"].session_state)
            counters["histories"] = counters.get("histories", 0) + 1
            # ---- save + restore ------------------------------------------------
            path = case["path"]
            if path == "lazy":
                app._instance_manager._delete_instance(iid)
            elif path == "save-load":
                r = c.get("/save-state")
                if r.status_code != 200:
                    return dict(kind="save-state-failed", status=r.status_code, body=r.get_data(as_text=True)[:200])
                app._instance_manager._delete_instance(iid)
                r = c.post("/load-state")
                if r.status_code != 200:
                    return dict(kind="load-state-failed", status=r.status_code, body=r.get_data(as_text=True)[:200])
            elif path == "save-while-absent":
                # the instance lives only in its state file (dropped from memory); another instance is alive; whole-server save;
                # the absent instance must still be restorable afterwards
                app._instance_manager._delete_instance(iid)
                other = json.loads(c.post("/start-instance", json={"timeout": {"hours": 5}}).get_data(as_text=True))["instance_uuid"]
                c.post("/%s/begin-session" % other, json={"scenario_managers": [srv.MG], "scenarios": scens, "equations": list(srv.EQS)})
                c.post("/%s/run-step" % other, json={"settings": {}})
                r = c.get("/save-state")
                if r.status_code != 200:
                    return dict(kind="save-state-failed", status=r.status_code, body=r.get_data(as_text=True)[:200])
                counters["saves_while_absent"] = counters.get("saves_while_absent", 0) + 1
            elif path == "twin":
                # a second instance with exactly the same history in the same directory; a new server restores both; the twin takes a
                # further step; the first instance must still come back as it was saved
                rng2 = random.Random(case["vseed"])
                twin = json.loads(c.post("/start-instance", json={"timeout": {"hours": 5}}).get_data(as_text=True))["instance_uuid"]
                c.post("/%s/begin-session" % twin, json={"scenario_managers": [srv.MG], "scenarios": scens, "equations": list(srv.EQS)})
                for kind in case["pattern"]:
                    if kind == "rebegin":
                        c.post("/%s/begin-session" % twin, json={"scenario_managers": [srv.MG], "scenarios": scens, "equations": list(srv.EQS)})
                    elif kind.startswith("stream"):
                        st = settings_for(kind[7:], rng2) if kind != "stream-nobody" else None
                        (c.post("/%s/stream-steps" % twin, json={"settings": st}) if st is not None else c.post("/%s/stream-steps" % twin)).get_data()
                    elif kind.startswith("steps"):
                        st = settings_for({"const": "const", "empty": "empty", "points": "points"}[kind[6:]], rng2)
                        c.post("/%s/run-steps" % twin, json={"numberSteps": int(kind[5]), "settings": st})
                    else:
                        st = settings_for(kind, rng2)
                        c.post("/%s/run-step" % twin, json={"settings": st}) if st is not None else c.post("/%s/run-step" % twin)
                app2 = srv.make_server(factory, state_dir=tmp, compress=case["compress"])
                apps.append(app2)
                app, c = app2, app2.test_client()
                c.get("/%s/session-results" % twin)                     # both are restored ...
                c.get("/%s/session-results" % iid)
                c.post("/%s/run-step" % twin, json={"settings": {}})   # ... and the twin moves on
                app._instance_manager._delete_instance(iid)            # the first one is restored once more from its file
                counters["twin_restores"] = counters.get("twin_restores", 0) + 1
            elif path == "replica":
                # a second server on the same directory loads the whole state, the first server moves on (and saves), the second
                # loads again: what it serves afterwards must be what was saved last, not what it still had in memory
                app2 = srv.make_server(factory, state_dir=tmp, compress=case["compress"])
                apps.append(app2)
                c2 = app2.test_client()
                r = c2.post("/load-state")
                if r.status_code != 200 or c2.get("/%s/session-results" % iid).status_code != 200:
                    return dict(kind="load-state-failed", status=r.status_code, body=r.get_data(as_text=True)[:200])
                for st in (settings_for("constR", rng), settings_for("constR", rng)):
                    r = c.post("/%s/run-step" % iid, json={"settings": st})
                    nsteps_done += 1
                    if r.status_code != 200:
                        return dict(kind="run-step-failed-with-adapter", step="replica", status=r.status_code, body=r.get_data(as_text=True)[:200])
                before_results = json.loads(c.get("/%s/session-results" % iid).get_data(as_text=True))
                before_flat = json.loads(c.get("/%s/flat-session-results" % iid).get_data(as_text=True))
                before_state = copy.deepcopy(app._instance_manager._instances[iid]["instance"].session_state)
                r = c2.post("/load-state")
                if r.status_code != 200:
                    return dict(kind="load-state-failed", status=r.status_code, body=r.get_data(as_text=True)[:200])
                app, c = app2, c2
                counters["loads_over_live_instance"] = counters.get("loads_over_live_instance", 0) + 1
            elif path == "rollback":
                # whole-server save, the directory is copied (a checkpoint), the session moves on, the checkpoint is put back and loaded:
                # the server must be back at the checkpoint
                import shutil as _sh
                r = c.get("/save-state")
                if r.status_code != 200:
                    return dict(kind="save-state-failed", status=r.status_code, body=r.get_data(as_text=True)[:200])
                ck = tmp + "_ck"
                _sh.copytree(tmp, ck)
                try:
                    r = c.post("/%s/run-steps" % iid, json={"numberSteps": 3, "settings": settings_for("constR", rng)})
                    if r.status_code != 200:
                        return dict(kind="run-step-failed-with-adapter", step="rollback", status=r.status_code, body=r.get_data(as_text=True)[:200])
                    for fn in os.listdir(ck):
                        _sh.copyfile(os.path.join(ck, fn), os.path.join(tmp, fn))
                finally:
                    _sh.rmtree(ck, ignore_errors=True)
                r = c.post("/load-state")
                if r.status_code != 200:
                    return dict(kind="load-state-failed", status=r.status_code, body=r.get_data(as_text=True)[:200])
                counters["loads_over_live_instance"] = counters.get("loads_over_live_instance", 0) + 1
            elif path == "timeout":
                clock.advance(seconds=60)
                c.get("/metrics")
                if iid in app._instance_manager._instances:
                    return dict(kind="harness", msg="instance did not time out")
            elif path == "new-server":
                app2 = srv.make_server(factory, state_dir=tmp, compress=case["compress"])
                apps.append(app2)
                app, c = app2, app2.test_client()
            r = c.get("/%s/session-results" % iid)
            counters["restores"] = counters.get("restores", 0) + 1
            if r.status_code != 200:
                return dict(kind="not-restored", status=r.status_code, body=r.get_data(as_text=True)[:200])
            after_results = json.loads(r.get_data(as_text=True))
            d = first_diff(canon(before_results), canon(after_results), "session-results")
            if d:
                return dict(kind="session-results-differ", diff=d)
            after_flat = json.loads(c.get("/%s/flat-session-results" % iid).get_data(as_text=True))
            d = first_diff(canon(before_flat), canon(after_flat), "flat-session-results")
            if d:
                return dict(kind="session-results-differ", diff=d)
            after_state = app._instance_manager._instances[iid]["instance"].session_state
            d = compare_states(before_state, after_state, counters)
            if d:
                return dict(kind="session-state-differs", diff=d)
            # ---- the restored session keeps stepping, with and without a body ----
            for body in ({"settings": {}}, None):
                r = c.post("/%s/run-step" % iid, json=body) if body is not None else c.post("/%s/run-step" % iid)
                counters["post_restore_steps"] = counters.get("post_restore_steps", 0) + 1
                if r.status_code != 200:
                    return dict(kind="run-step-failed-after-restore", with_body=body is not None, status=r.status_code, body=r.get_data(as_text=True)[:200])
                js = json.loads(r.get_data(as_text=True))
                if "msg" not in js:
                    ts = [float(t) for t in js[srv.MG][srv.SC]["stock"]]
                    exp_t = float(D(case["start"]) + (nsteps_done + (0 if body is not None else 1)) * D(case["dt"]))
                    if len(ts) != 1 or abs(ts[0] - exp_t) > 1e-9:
                        return dict(kind="clock-after-restore", got=ts, expected=exp_t)
        return None
    finally:
        for a in apps:
            srv.destroy_server(a)
        import shutil
        shutil.rmtree(tmp, True)


def run_adapter(case, counters):
    from vlib import srv
    from BPTK_Py.externalstateadapter import FileAdapter, InstanceState
    import datetime
    rng = random.Random(case["vseed"])
    start, dt = float(case["start"]), float(case["dt"])
    stop = float(D(case["start"]) + 14 * D(case["dt"]))
    tmp = tempfile.mkdtemp(prefix="c19a_", dir=".")
    b = srv.bptk_factory(start=start, stop=stop, dt=dt)()
    try:
        b.begin_session(scenarios=[srv.SC], scenario_managers=[srv.MG], equations=list(srv.EQS), starttime=start, dt=dt)
        for kind in case["pattern"]:
            st = _settings_for(kind, rng)
            b.run_step(settings=st) if st is not None else b.run_step()
        counters["histories"] = counters.get("histories", 0) + 1
        before = copy.deepcopy(b.session_state)
        ad = FileAdapter(case["compress"], tmp)
        whole = case["vseed"] % 2 == 1     # whole-server API (save_state / load_state) over a directory that already holds an older file of this instance
        try:
            real = InstanceState(copy.deepcopy(b.session_state), "inst1", datetime.datetime.now(), {"hours": 1}, b.session_state["step"])
            if whole:
                # the older file: another session of the same instance that happens to stand at the same clock position
                decoy = copy.deepcopy(b.session_state)
                decoy["equations"] = ["stock"]
                decoy["settings_log"], decoy["results_log"] = {}, {}
                ad.save_state([InstanceState(decoy, "inst1", datetime.datetime.now(), {"hours": 2}, decoy["step"]),
                               InstanceState(copy.deepcopy(decoy), "inst2", datetime.datetime.now(), {"hours": 2}, decoy["step"])])
                ad.save_state([real])
                counters["overwrites_of_existing_state_file"] = counters.get("overwrites_of_existing_state_file", 0) + 1
            else:
                ad.save_instance(real)
        except Exception as e:
            return dict(kind="save-instance-raised", error="%s: %s" % (type(e).__name__, str(e)[:160]))
        if whole:
            states = [x for x in (ad.load_state() or []) if x is not None and x.instance_id == "inst1"]
            loaded = states[0] if len(states) == 1 else None
        else:
            loaded = ad.load_instance("inst1")
        counters["restores"] = counters.get("restores", 0) + 1
        if loaded is None or loaded.state is None:
            return dict(kind="not-restored", via="adapter")
        d = compare_states(before, loaded.state, counters)
        if d:
            return dict(kind="session-state-differs", diff=d)
        if loaded.instance_id != "inst1" or loaded.timeout != {"hours": 1}:
            return dict(kind="metadata-differs", instance_id=loaded.instance_id, timeout=loaded.timeout)
        counters["post_restore_steps"] = counters.get("post_restore_steps", 0) + 1
        return None
    finally:
        b.destroy()
        import shutil
        shutil.rmtree(tmp, True)


LOG_PATHS = ("session-results", "flat-session-results", "session_state/settings_log", "session_state/results_log", "session_state/settings")


def classify(case, w, counters):
    """Mechanism key = predicate over the witness (never a seed or hash) + a control run.

    compressed-format-lossy: compress=True AND the only thing that differs lies in the per-step logs / the results derived from
    them (step keys renumbered 1.0, 2.0, ...; steps without settings merged away; per-constant value lists misaligned) AND the
    control - the same path and number of steps with start=1, dt=1 and the same single constant set on every step, where the
    format loses nothing - is restored losslessly."""
    k = w["kind"]
    if case["compress"] and k in ("session-results-differ", "session-state-differs") and any(w.get("diff", "").startswith(p) for p in LOG_PATHS):
        control = dict(case, start="1", dt="1", pattern=["constR"] * len(case["pattern"]))
        cw = run_rest(control, {}) if case["layer"] == "rest" else run_adapter(control, {})
        counters["controls_run"] = counters.get("controls_run", 0) + 1
        if cw is None:
            return "compressed-format-lossy"
        return "compressed-control-failed:" + cw["kind"]
    return k + (":compress" if case["compress"] else "")


def run_case(case):
    counters = {}
    try:
        w = run_rest(case, counters) if case["layer"] == "rest" else run_adapter(case, counters)
    except Exception as e:
        import traceback
        w = dict(kind="exception:" + type(e).__name__, error=traceback.format_exc()[-600:])
    has_settings = any(p in ("const", "points", "constR") for p in case["pattern"])
    nt = "%s|%s|%s|%s|%s" % (case["start"], case["dt"], "".join(p[0] for p in case["pattern"]), case["compress"], case["path"]) if (len(case["pattern"]) >= 2 and has_settings) else None
    if w is not None:
        return dict(verdict="violated", nt=nt, counters=counters, mech=classify(case, w, counters), witness=dict(first=w, case=case))
    return dict(verdict="held", nt=nt, counters=counters, sample=dict(case=case))
