"""C09 - every way of obtaining results reports the same numbers on the same grid.

Channels: batch run (df / dict / json), Python session (begin_session, run_step
to the stop time, session_results by time / by equation / flat), REST (/run,
begin-session + a partition of the run into run-step / run-steps(n) /
stream-steps, session-results, flat-session-results).  Anchor: vlib.refsd with
piecewise-constant parameters (a setting given with step k holds for t >= t_k
and for nothing before).  A request/response recorder at the Flask test-client
boundary keeps the witness."""
import copy
import json
import random
from decimal import Decimal as D

from vlib import expr as X
from vlib import refsd, spec as S

ID = "C09"
LEVEL = "exploration"
TECHNIQUE = "channel x channel agreement anchored on a reference interpreter with piecewise-constant parameters; HTTP request/response recorder"
RULE = ("seeded models (vlib.spec.Gen, depth<=2, lookups/delay/smooth/step) x run specs dt in {1,.5,.25,.1,.2} start in {0,1,2,3,8,9,98,-1,-2,-3} with 3-8 steps; "
        "every fourth model is a designed look-back chain (delay / smooth of an element that is NOT among the requested equations, fed by a constant the schedule changes); per-step settings schedules (none / {} / constants / named points at random steps); REST partitions: all compositions of the "
        "run into run-step / run-steps(n) / stream-steps blocks for <=5 steps (thorough) or 3 sampled (quick); every third case runs the REST partitions on a server with a FileAdapter and drops the instance from memory between blocks (the next request restores it from its state file). distinct_nontrivial = "
        "distinct (partition shape, settings kinds, dt) combinations in which a setting changes at least one later value "
        "and at least one requested element is not constant.")
ASSUMPTIONS = ["a setting passed with step k holds from t_k on (the stock at t_k was integrated with the old value)",
               "run-steps(n) passes the same settings to each of its n steps; stream-steps likewise",
               "JSON numeric keys are compared as floats"]
REQUIRED = {"sessions_reusing_one_settings_dict": 10, "multi_scenario_steps": 50, "restores_between_blocks": 10, "lookback_cases": 5, "python_steps": 200, "rest_requests": 300, "cells_compared": 5000, "channel_pairs": 300}
BUDGET_S = {"quick": 110, "thorough": 1500}

RUNS = [("0", "1"), ("0", "0.5"), ("1", "0.25"), ("0", "0.1"), ("3", "0.5"), ("2", "0.2"), ("1", "1"), ("0", "0.25"), ("8", "1"), ("9", "0.5"), ("98", "1"), ("-2", "1"), ("-1", "0.5"), ("-3", "1")]   # incl. session clocks that cross 10 and 100


def gen_cases(tier, seed):
    n = 70 if tier == "quick" else 1200
    return [dict(seed=seed * 99991 + i, parts=3 if tier == "quick" else 6) for i in range(n)]


def lookback_spec(rng, dt):
    """A designed chain whose reported elements look BACK at an element that is not reported itself:
    gain, base -> signal = gain*base + time ; echo = delay(signal, 2dt) ; sm = smooth(signal, T, init) ; acc' = echo"""
    d = float(D(dt) * rng.choice([1, 2, 3]))
    els = [dict(name="gain", kind="constant", value=rng.choice([1.0, 2.0])), dict(name="base", kind="constant", value=10.0),
           dict(name="lk", kind="converter", eq=["lookup", ["time"], "dummy"]),          # a named lookup: points-only settings reach the chain, too
           dict(name="signal", kind="converter", eq=["bin", "+", ["bin", "*", ["ref", "gain"], ["ref", "base"]], ["bin", "*", ["ref", "lk"], ["num", 4.0]]]),
           dict(name="echo", kind="converter", eq=["delay", "signal", d, rng.choice([None, 1.5])]),
           dict(name="gecho", kind="converter", eq=["delay", "gain", d, None])]          # looks back at the changed constant itself
    variant = rng.choice(["delay-only", "delay-only", "smooth", "stock", "all"])      # a stock (also the hidden one of smooth) evaluates its inputs eagerly
    req = [["echo"], ["echo", "gain"], ["echo", "base"], ["gecho"], ["gecho", "gain"], ["gecho", "echo"]]
    if variant in ("smooth", "all"):
        els.append(dict(name="sm", kind="converter", eq=["smooth", ["ref", "signal"], rng.choice([2.0, 4.0]), 5.0]))
        req += [["sm"], ["echo", "sm"]]
    if variant in ("stock", "all"):
        els += [dict(name="inflow", kind="biflow", eq=["bin", "+", ["ref", "echo"], ["ref", "lk"]]), dict(name="acc", kind="stock", init=1.0, eq=["ref", "inflow"])]
        req += [["echo", "acc"], ["acc"]]
    return dict(points={"dummy": [[0.0, 1.0], [10.0, 2.0]]}, elements=els, req_choices=req)


def make(seed):
    rng = random.Random(seed)
    for attempt in range(50):
        start, dt = rng.choice(RUNS)
        if seed % 4 == 3:
            sp = lookback_spec(rng, dt)
            n = rng.randint(5, 8)
        else:
            g = S.Gen(random.Random(rng.randrange(10 ** 9)))
            sp = g.spec()
            n = rng.randint(3, 7)
        sp["run"] = dict(start=start, stop=str(D(start) + n * D(dt)), dt=dt)
        # delays etc. were generated for another dt: regenerate until the spec is usable on this grid
        consts = [e["name"] for e in sp["elements"] if e["kind"] == "constant"]
        sched = {}
        kinds = set()
        for k in range(n + 1):
            r = rng.random()
            if r < 0.35:
                continue
            if r < 0.45:
                sched[k] = {}
                kinds.add("empty")
            elif r < 0.8:
                sched[k] = {"constants": {rng.choice(consts): rng.choice([0.5, 1.5, -1.0, 3.0, 0.0, 2.25])}}
                kinds.add("constants")
            else:
                pn = rng.choice(sorted(sp["points"]))
                sched[k] = {"points": {pn: [[-1.0, rng.choice([0.0, 2.0])], [4.0, rng.choice([1.0, 5.0])], [12.0, 0.5]]}}
                kinds.add("points")
        try:
            ref = refsd.Ref(sp, {k: v for k, v in sched.items() if v})
            table = ref.table()
            ref0 = refsd.Ref(sp)
            table0 = ref0.table()
            if min(ref.min_dist, ref0.min_dist) < 1e-6:
                continue
        except (X.IllConditioned, RecursionError):
            continue
        return sp, sched, table, table0, ref.times, kinds, rng
    return None


def compositions(n, maxparts=None):
    if n == 0:
        yield []
        return
    for first in range(1, n + 1):
        for rest in compositions(n - first):
            yield [first] + rest


def floatkeys(d):
    return {float(k): v for k, v in d.items()}


def cmp_series(where, got, times, col, counters, tol=1e-9):
    """got: {t: v}; must cover exactly `times` with the reference column."""
    ts = sorted(got)
    if len(ts) != len(times) or any(abs(a - b) > 1e-9 for a, b in zip(ts, times)):
        return dict(kind="grid", where=where, got=ts, expected=times)
    for t, e in zip(ts, col):
        counters["cells_compared"] = counters.get("cells_compared", 0) + 1
        if not X.close(got[t], e, rel=tol, ab=1e-9):
            return dict(kind="value", where=where, t=t, got=got[t], expected=e)
    return None


def run_case(case):
    from BPTK_Py import bptk
    from BPTK_Py.server import BptkServer
    made = make(case["seed"])
    if made is None:
        return dict(verdict="illcond", counters={"illcond": 1})
    sp, sched, table, table0, times, kinds, rng = made
    counters = {}
    names = [e["name"] for e in sp["elements"]]
    req = rng.sample(names, min(len(names), rng.randint(2, 4))) if "req_choices" not in sp else list(rng.choice(sp["req_choices"]))
    if "req_choices" in sp:
        counters["lookback_cases"] = 1
    n = len(times) - 1
    start, dt = float(sp["run"]["start"]), float(sp["run"]["dt"])
    MG, SC = "smM", "base"
    http_log = []

    def factory():
        m, _ = S.build_dsl(sp, name="m")
        b = bptk()
        b.register_model(m, scenario_manager=MG)
        return b
    w = None
    opened = []
    try:
        # ---- batch: three formats agree with each other and with the plain reference
        b = factory()
        opened.append(b)
        df = b.run_scenarios(scenarios=[SC], scenario_managers=[MG], equations=list(req), return_format="df")
        dd = b.run_scenarios(scenarios=[SC], scenario_managers=[MG], equations=list(req), return_format="dict")
        js = json.loads(b.run_scenarios(scenarios=[SC], scenario_managers=[MG], equations=list(req), return_format="json"))
        for e in req:
            col = e if e in df.columns else "%s_%s_%s" % (MG, SC, e)
            for where, got in (("batch-df", {float(t): float(v) for t, v in df[col].items()}),
                               ("batch-dict", {float(t): float(v) for t, v in dd[MG][SC]["equations"][e].items()}),
                               ("batch-json", {float(t): float(v) for t, v in js[MG][SC]["equations"][e].items()})):
                w = w or cmp_series(where + ":" + e, got, times, table0[e], counters)
                counters["channel_pairs"] = counters.get("channel_pairs", 0) + 1
        # ---- python session with the settings schedule
        if w is None:
            b2 = factory()
            opened.append(b2)
            b2.begin_session(scenarios=[SC], scenario_managers=[MG], equations=list(req), starttime=start, dt=dt)
            got = {e: {} for e in req}
            flat_seen = []
            reuse = case["seed"] % 2 == 1          # the caller keeps ONE settings dictionary and updates it in place from step to step
            shared = {MG: {SC: {}}}
            if reuse:
                counters["sessions_reusing_one_settings_dict"] = 1
            for k in range(n + 1):
                st = sched.get(k)
                if reuse and st is not None:
                    shared[MG][SC].clear()
                    shared[MG][SC].update(copy.deepcopy(st))
                    settings = shared
                else:
                    settings = None if st is None else {MG: {SC: copy.deepcopy(st)}}
                r = b2.run_step(settings=settings) if settings is not None else b2.run_step()
                counters["python_steps"] = counters.get("python_steps", 0) + 1
                if r is None or "msg" in r:
                    w = dict(kind="session-ended-early", step=k, result=r)
                    break
                for e in req:
                    if len(r[MG][SC][e]) != 1 or abs(float(list(r[MG][SC][e])[0]) - times[k]) > 1e-9:
                        w = dict(kind="step-result-time-stamps", step=k, equation=e, got=[float(x) for x in r[MG][SC][e]], expected=[times[k]])
                        break
                    for t, v in r[MG][SC][e].items():
                        got[e][float(t)] = float(v)
                if w:
                    break
            if w is None:
                extra = b2.run_step()
                if extra is None or "msg" not in extra:
                    w = dict(kind="session-overruns-stop", result=str(extra)[:200])
            for e in req:
                w = w or cmp_series("python-session:" + e, got[e], times, table[e], counters)
            if w is None:
                by_time = b2.session_results()
                by_eq = b2.session_results(index_by_time=False)
                flat = b2.session_results(index_by_time=False, flat=True)
                for e in req:
                    s1 = {float(t): float(by_time[t][MG][SC][e][t]) for t in by_time}
                    s2 = {float(t): float(v) for t, v in by_eq[MG][SC]["equations"][e].items()}
                    s3 = dict(zip(times, [float(x) for x in flat[MG][SC]["equations"][e]])) if len(flat[MG][SC]["equations"][e]) == len(times) else {"len": len(flat[MG][SC]["equations"][e])}
                    for where, s in (("session_results(time)", s1), ("session_results(equation)", s2), ("session_results(flat)", s3)):
                        w = w or cmp_series(where + ":" + e, s, times, table[e], counters)
                        counters["channel_pairs"] = counters.get("channel_pairs", 0) + 1
        # ---- REST
        if w is None:
            adapter_dir = None
            if case["seed"] % 3 == 1:
                # externalised server: between blocks the instance is dropped from memory, the next request restores it from its state file
                import tempfile
                from BPTK_Py.externalstateadapter import FileAdapter
                adapter_dir = tempfile.mkdtemp(prefix="c09_", dir=".")
                app = BptkServer(__name__, factory, external_state_adapter=FileAdapter(False, adapter_dir))
            else:
                app = BptkServer(__name__, factory)
            opened.append(app._bptk)
            client = app.test_client()

            def call(method, url, **kw):
                resp = getattr(client, method)(url, **kw)
                body = resp.get_data(as_text=True)
                counters["rest_requests"] = counters.get("rest_requests", 0) + 1
                http_log.append((method, url.split("/")[-1], kw.get("json"), resp.status_code, body[:300]))
                del http_log[:-12]
                return resp.status_code, body
            code, body = call("post", "/run", json={"scenario_managers": [MG], "scenarios": [SC], "equations": list(req)})
            if code != 200:
                w = dict(kind="rest-status", url="/run", status=code, body=body[:200])
            else:
                js = json.loads(body)
                for e in req:
                    w = w or cmp_series("REST /run:" + e, {float(t): float(v) for t, v in js[MG][SC]["equations"][e].items()}, times, table0[e], counters)
            allparts = list(compositions(n + 1))
            rng.shuffle(allparts)
            if start < 0:
                # the REST begin-session passes no start time, and begin_session documents max(0.0, scenario start): a scenario that
                # starts before 0 cannot be stepped from its start over REST - not part of this comparison
                allparts = []
            for part in allparts[:case["parts"]]:
                if w is not None:
                    break
                # block kinds: size 1 -> run-step; size>1 -> run-steps; last block may be stream-steps
                code, body = call("post", "/start-instance", json={"timeout": {"minutes": 5}})
                iid = json.loads(body)["instance_uuid"]
                code, body = call("post", "/%s/begin-session" % iid, json={"scenario_managers": [MG], "scenarios": [SC], "equations": list(req)})
                if code != 200:
                    w = dict(kind="rest-status", url="begin-session", status=code, body=body[:200])
                    break
                # the schedule must be constant inside a multi-step block: settings are given at the block's first step
                k = 0
                psched = {}
                got = {e: {} for e in req}
                shape = []
                for bi, size in enumerate(part):
                    st = sched.get(k)
                    if st is not None:
                        psched[k] = st
                    payload = {MG: {SC: copy.deepcopy(st)}} if st is not None else None
                    use_stream = (bi == len(part) - 1 and size > 1 and rng.random() < 0.5)
                    if use_stream:
                        shape.append("stream%d" % size)
                        code, body = call("post", "/%s/stream-steps" % iid, json={"settings": payload or {}})
                        try:
                            steps = json.loads(body)
                        except Exception:
                            w = dict(kind="stream-body", body=body[:300])
                            break
                    elif size == 1:
                        shape.append("step")
                        if payload is None and rng.random() < 0.5:
                            code, body = call("post", "/%s/run-step" % iid)
                        else:
                            code, body = call("post", "/%s/run-step" % iid, json={"settings": payload or {}})
                        steps = [json.loads(body)] if code == 200 else []
                    else:
                        shape.append("steps%d" % size)
                        code, body = call("post", "/%s/run-steps" % iid, json={"numberSteps": size, "settings": payload or {}})
                        steps = json.loads(body) if code == 200 else []
                    if code != 200:
                        w = dict(kind="rest-status", url=shape[-1], status=code, body=body[:200])
                        break
                    if len(steps) != size:
                        w = dict(kind="rest-step-count", block=shape[-1], got=len(steps), expected=size, body=body[:300])
                        break
                    for r in steps:
                        for e in req:
                            for t, v in r.get(MG, {}).get(SC, {}).get(e, {}).items():
                                got[e][float(t)] = float(v)
                    k += size
                    if adapter_dir is not None and rng.random() < 0.6 and iid in app._instance_manager._instances:
                        opened.append(app._instance_manager._instances[iid]["instance"])
                        app._instance_manager._delete_instance(iid)
                        counters["restores_between_blocks"] = counters.get("restores_between_blocks", 0) + 1
                if w is not None:
                    break
                try:
                    ptable = refsd.Ref(sp, {kk: v for kk, v in psched.items() if v}).table()
                except X.IllConditioned:
                    continue
                for e in req:
                    w = w or cmp_series("REST %s:%s" % ("+".join(shape), e), got[e], times, ptable[e], counters)
                if w is None:
                    code, body = call("get", "/%s/session-results" % iid)
                    code2, body2 = call("get", "/%s/flat-session-results" % iid)
                    sr, fr = json.loads(body), json.loads(body2)
                    for e in req:
                        w = w or cmp_series("REST session-results:" + e, {float(t): float(v) for t, v in sr[MG][SC]["equations"][e].items()}, times, ptable[e], counters)
                        fl = fr[MG][SC]["equations"][e]
                        w = w or cmp_series("REST flat-session-results:" + e, dict(zip(times, [float(x) for x in fl])) if len(fl) == len(times) else {-1.0: len(fl)}, times, ptable[e], counters)
                        counters["channel_pairs"] = counters.get("channel_pairs", 0) + 2
                call("post", "/%s/stop-instance" % iid)
                if w is not None:
                    w["partition"] = shape
                    w["schedule_used"] = {str(kk): v for kk, v in psched.items()}
            for inst in list(app._instance_manager._instances.values()):
                opened.append(inst["instance"])
        # ---- one session over two scenarios of a manager and over two managers that both own a scenario called "base": step settings
        #      that name one scenario reach that scenario only; nested and flat step results report every (manager, scenario) separately
        consts0 = [e for e in sp["elements"] if e["kind"] == "constant"]
        if w is None and case["seed"] % 2 == 0 and consts0:
            cname, cval = consts0[0]["name"], float(consts0[0]["value"])
            sp_two, sp_n = copy.deepcopy(sp), copy.deepcopy(sp)
            for e in sp_two["elements"]:
                if e["name"] == cname:
                    e["value"] = cval * 2.0 + 0.5
            for e in sp_n["elements"]:
                if e["name"] == cname:
                    e["value"] = cval - 1.25
            try:
                t_two, t_n = refsd.Ref(sp_two).table(), refsd.Ref(sp_n).table()
                usable = True
            except (X.IllConditioned, RecursionError):
                usable = False
            if usable:
                def factory3():
                    m, _ = S.build_dsl(sp, name="m")
                    mn, _ = S.build_dsl(sp_n, name="n")
                    b = bptk()
                    b.register_model(m, scenario_manager=MG, scenario={"base": {}, "two": {"constants": {cname: cval * 2.0 + 0.5}}})
                    b.register_model(mn, scenario_manager="smN")          # its default scenario is called "base", too
                    return b
                b5 = factory3()
                opened.append(b5)
                b5.begin_session(scenarios=["base", "two"], scenario_managers=[MG, "smN"], equations=list(req), starttime=start, dt=dt)
                got = {(mg, sc): {e: {} for e in req} for (mg, sc) in ((MG, "base"), (MG, "two"), ("smN", "base"))}
                for k in range(n + 1):
                    st = sched.get(k)
                    settings = None if st is None else {MG: {"base": copy.deepcopy(st)}}          # names the first scenario only
                    flat = bool(k % 2)
                    r = b5.run_step(settings=settings, flat=flat) if settings is not None else b5.run_step(flat=flat)
                    counters["python_steps"] = counters.get("python_steps", 0) + 1
                    counters["multi_scenario_steps"] = counters.get("multi_scenario_steps", 0) + 1
                    if r is None or "msg" in r:
                        w = dict(kind="session-ended-early", step=k, result=r, where="multi-scenario session")
                        break
                    for (mg, sc) in got:
                        for e in req:
                            try:
                                cell = r[mg][sc][e]
                            except (KeyError, TypeError):
                                w = dict(kind="missing-in-step-result", manager=mg, scenario=sc, equation=e, flat=flat, result=str(r)[:300])
                                break
                            if flat:
                                got[(mg, sc)][e][times[k]] = float(cell)
                            else:
                                for t, v in cell.items():
                                    got[(mg, sc)][e][float(t)] = float(v)
                        if w:
                            break
                    if w:
                        break
                for (mg, sc), tab in (((MG, "base"), table), ((MG, "two"), t_two), (("smN", "base"), t_n)):
                    for e in req:
                        w = w or cmp_series("multi-scenario session %s/%s:%s" % (mg, sc, e), got[(mg, sc)][e], times, tab[e], counters)
        # ---- a scenario whose dt differs from its model's dt (runspecs at scenario level): sessions opened without an
        #      explicit dt, on a bptk that has not run anything yet, must step on the scenario's grid like the batch run does
        if w is None and case["seed"] % 3 == 0 and start >= 0:
            half = str(D(sp["run"]["dt"]) / 2)
            sp2 = copy.deepcopy(sp)
            sp2["run"]["dt"] = half
            try:
                ref2 = refsd.Ref(sp2)
                table2 = ref2.table()
                usable = ref2.min_dist >= 1e-6
            except (X.IllConditioned, RecursionError):
                usable = False
            if usable:
                def factory2():
                    m, _ = S.build_dsl(sp, name="m")
                    b = bptk()
                    b.register_model(m, scenario_manager=MG, scenario={"base": {}, "fine": {"runspecs": {"dt": float(half)}}})
                    return b
                b3 = factory2()
                opened.append(b3)
                b3.begin_session(scenarios=["fine"], scenario_managers=[MG], equations=list(req), starttime=start)
                got = {e: {} for e in req}
                for k in range(len(ref2.times) + 2):
                    r = b3.run_step()
                    counters["python_steps"] = counters.get("python_steps", 0) + 1
                    if r is None or "msg" in r:
                        break
                    for e in req:
                        for t, v in r[MG]["fine"][e].items():
                            got[e][float(t)] = float(v)
                for e in req:
                    w = w or cmp_series("python-session(scenario dt):" + e, got[e], ref2.times, table2[e], counters)
                if w is None:
                    app2 = BptkServer(__name__, factory2)
                    opened.append(app2._bptk)
                    c2 = app2.test_client()
                    iid = json.loads(c2.post("/start-instance", json={}).get_data(as_text=True))["instance_uuid"]
                    c2.post("/%s/begin-session" % iid, json={"scenario_managers": [MG], "scenarios": ["fine"], "equations": list(req)})
                    body = c2.post("/%s/run-steps" % iid, json={"numberSteps": len(ref2.times), "settings": {}}).get_data(as_text=True)
                    counters["rest_requests"] = counters.get("rest_requests", 0) + 3
                    got = {e: {} for e in req}
                    for r in json.loads(body):
                        for e in req:
                            for t, v in r.get(MG, {}).get("fine", {}).get(e, {}).items():
                                got[e][float(t)] = float(v)
                    for e in req:
                        w = w or cmp_series("REST run-steps(scenario dt):" + e, got[e], ref2.times, table2[e], counters)
                    for inst in list(app2._instance_manager._instances.values()):
                        opened.append(inst["instance"])
                    js2 = json.loads(app2.test_client().post("/run", json={"scenario_managers": [MG], "scenarios": ["fine"], "equations": list(req)}).get_data(as_text=True))
                    for e in req:
                        w = w or cmp_series("REST /run(scenario dt):" + e, {float(t): float(v) for t, v in js2[MG]["fine"]["equations"][e].items()}, ref2.times, table2[e], counters)
    except Exception as e:
        import traceback
        w = dict(kind="exception:" + type(e).__name__, error=traceback.format_exc()[-600:])
    finally:
        try:
            if adapter_dir is not None:
                import shutil
                shutil.rmtree(adapter_dir, True)
        except NameError:
            pass
        for b in opened:
            try:
                b.destroy()
            except Exception:
                pass
    effective = table != table0
    nonconst = any(max(table[e]) - min(table[e]) > 1e-9 for e in req)
    nt = "%s|%s|%d" % (sorted(kinds), sp["run"]["dt"], n) if (effective and nonconst) else None
    if w is not None:
        mech = w["kind"]
        if w["kind"] in ("value", "grid"):
            ch = w["where"].split(":")[0]
            mech = "%s:%s" % (w["kind"], "REST-session" if ch.startswith("REST") and "/run" not in ch else ch.split("(")[0])
            if w["kind"] == "value" and sched and any(sched.values()):
                mech += ":with-step-settings"
        return dict(verdict="violated", nt=nt, counters=counters, mech=mech,
                    witness=dict(first=w, run=sp["run"], requested=req, schedule={str(k): v for k, v in sched.items()}, http=http_log[-6:], spec=sp))
    return dict(verdict="held", nt=nt, counters=counters, sample=dict(run=sp["run"], requested=req, schedule={str(k): v for k, v in sched.items()}))
