"""C03 - the XMILE transpiler preserves the meaning of every supported equation.

Translation validation: generated XMILE documents go through the real pipeline
(compile_xmile -> import -> simulation_model().equation(name, t)); every
variable is compared with the harness's evaluator of the *semantic* AST.  Four
spellings of each equation (whitespace, keyword case, redundant parentheses,
name shapes) must agree; out-of-grammar equations must fail loudly."""
import logging
import math
import os
import random

from vlib import expr as X
from vlib import xmile as XM

ID = "C03"
LEVEL = "translation_validation"
TECHNIQUE = "per-variable differential between the transpiled model and an evaluator of the semantic AST; IR-node coverage monitor; loud-failure class"
RULE = ("documents of 3 kinds: (table) the exhaustive depth-2 table outer x position x inner over + - * / ^ MOD and unary minus, IF/THEN/ELSE with "
        "compound comparison operands, AND/OR chains, NOT(...), each built-in (ABS MIN MAX INT SQRT EXP LN LOG10 SIN COS TAN SAFEDIV ROUND PERCENT "
        "STEP RAMP SINWAVE COSWAVE PULSE) with compound arguments, in 4 spellings; (random) seeded trees to depth 5 in 2 spellings with 7 variable-name shapes "
        "(plain, underscore, space, quoted, upper, mixed case, digit suffix); comparisons of exactly equal operands and literals with up to 10 significant digits are included; every fourth equation is also carried by a flow marked <non_negative/> (clamped at zero); every third document repeats all variables with the same equation texts and other constant values in two named modules (names resolve inside their own model), each with an input wired to a root variable by a <connect>, half of them with the sub-models listed before the root model, followed in the same process by small documents that wire the module differently or not at all; (loud) one out-of-grammar equation per document: unknown function, "
        "dangling operator, unbalanced parentheses, unknown identifier, keyword misuse. programs = documents compiled; distinct_nontrivial = "
        "distinct (outer, position, inner) / tree digests whose value changes if compound operands are pasted without parentheses.")
ASSUMPTIONS = ["^ binds tighter than unary minus, which binds tighter than * / MOD; chains of ^ are always printed with explicit parentheses",
               "MOD is judged for positive operands only; ROUND away from .5; STEP(h,t0)=h for t>=t0; RAMP(s,t0)=s*(t-t0) for t>t0",
               "boolean conditions are generated as OR-of-AND chains of comparisons (the grammar has no parenthesised boolean groups)"]
REQUIRED = {"rewired_follow_up_documents": 10, "non_negative_flows_compared": 200, "wired_inputs_checked": 5, "documents_with_modules": 5, "documents_compiled": 20, "variables_compared": 1000, "loud_cases": 8, "ir_nodes_seen": 1000}
BUDGET_S = {"quick": 110, "thorough": 1500}

CLOCKVAR = ("clock var", "TIME*2 + 1", lambda t: t * 2 + 1)     # a variable that moves with time (INIT / DELAY of a reference)
CONSTS = [("alpha", 7.0), ("beta_gamma", 3.0), ("Delta Eps", 2.0), ("ZETA", 1.5), ("eta1", 0.5), ("Theta_X y", 4.0), ("nu", -2.5), ("rate+x#1", 2.5), ("alpha_twin", 7.0)]
BIN = ["+", "-", "*", "/", "**", "%"]
CMP = ["<", ">", "<=", ">=", "==", "!="]
# graphical functions every document carries; LOOKUP(gf, x) is the function at x whatever the function's own equation is
GFS = {"curve_t": ("TIME", [(0.0, 1.0), (2.0, 3.0), (5.0, 0.5), (10.0, 4.0)]), "curve_c": ("alpha", [(-5.0, 2.0), (0.0, 0.0), (4.0, 8.0), (9.0, 8.5)])}
GF_ELS = [dict(kind="aux", name=n, eqn=e, gf=dict(xpts=[p[0] for p in pts], ypts=[p[1] for p in pts])) for n, (e, pts) in GFS.items()]
_LK = [True]


def has_lookup(a):
    return isinstance(a, list) and ((len(a) > 1 and a[0] == "call" and a[1] == "LOOKUP") or any(has_lookup(z) for z in a))


FN1 = ["ABS", "INT", "SQRT", "EXP", "LN", "LOG10", "SIN", "COS", "TAN", "ROUND", "PERCENT", "ARCSIN", "ARCCOS", "ARCTAN", "GAMMALN"]
RUN = dict(start="1", stop="5", dt="0.5")
TIMES = [1.0, 1.5, 3.0, 5.0]


def sname(n):
    from BPTK_Py.sdcompiler.plugins.sanitizeNames import sanitizeName
    return sanitizeName(n.lower())


class XEnv(X.Env):
    def ref(self, name):
        if name == CLOCKVAR[0]:
            return CLOCKVAR[2](self.t)
        return self.vals[name]

    def at(self, t):
        e = XEnv(self.vals, t=t)
        e.parent = self
        return e

    def cond(self, dist, scale=1.0):
        X.Env.cond(self, dist, scale)
        p = getattr(self, "parent", None)
        if p is not None:
            p.cond(dist, scale)

    def builtin(self, a):
        if a[0] == "dt":
            return float(RUN["dt"])
        if a[0] == "starttime":
            return float(RUN["start"])
        if a[0] == "stoptime":
            return float(RUN["stop"])
        if a[0] == "pi":
            return math.pi
        if a[0] != "call":
            raise KeyError(a[0])
        n = a[1]
        args = [X.ev(z, self) for z in a[2:]]
        x = args[0]
        if n == "ABS":
            return abs(x)
        if n == "MIN":
            self.cond(args[0] - args[1])
            return min(args)
        if n == "MAX":
            self.cond(args[0] - args[1])
            return max(args)
        if n == "INT":
            self.cond(x - round(x))
            return float(math.floor(x))
        if n == "SQRT":
            if x < 1e-6:
                raise X.IllConditioned("sqrt")
            return math.sqrt(x)
        if n == "EXP":
            if abs(x) > 25:
                raise X.IllConditioned("exp")
            return math.exp(x)
        if n in ("LN", "LOG10"):
            if x < 1e-6:
                raise X.IllConditioned("log")
            return math.log(x) if n == "LN" else math.log10(x)
        if n in ("SIN", "COS", "TAN"):
            if abs(x) > 1e3 or (n == "TAN" and abs(math.cos(x)) < 0.05):
                raise X.IllConditioned("tan")
            return getattr(math, n.lower())(x)
        if n in ("ARCSIN", "ARCCOS"):
            if abs(x) > 0.999:
                raise X.IllConditioned("arc domain")
            return math.asin(x) if n == "ARCSIN" else math.acos(x)
        if n == "ARCTAN":
            return math.atan(x)
        if n == "GAMMALN":
            if x < 1e-3 or x > 150:
                raise X.IllConditioned("gammaln domain")
            return math.lgamma(x)
        if n == "ROOTN":
            if x < 1e-6:
                raise X.IllConditioned("rootn of a non-positive number")
            return x ** (1.0 / args[1])
        if n == "FACTORIAL":
            return float(math.factorial(int(x)))
        if n == "ROUND":
            self.cond((x - math.floor(x)) - 0.5)
            return float(round(x))
        if n == "PERCENT":
            return x * 100.0
        if n == "SAFEDIV":
            if args[1] == 0:
                return args[2] if len(args) > 2 else 0.0
            self.cond(args[1])
            if abs(args[1]) < 1e-6:
                raise X.IllConditioned("safediv")
            return args[0] / args[1]
        if n == "STEP":
            self.cond(self.t - args[1])
            return args[0] if self.t >= args[1] else 0.0
        if n == "RAMP":
            return 0.0 if self.t <= args[1] else (self.t - args[1]) * args[0]
        if n in ("SINWAVE", "COSWAVE"):
            if abs(args[1]) < 1e-3:
                raise X.IllConditioned("period")
            f = math.sin if n == "SINWAVE" else math.cos
            return args[0] * f(2 * math.pi * (self.t - float(RUN["start"])) / args[1])
        if n == "PULSE":
            vol, first, interval = args
            dt = float(RUN["dt"])
            hit = first <= self.t and ((self.t - first) % interval) == 0
            return vol / dt if hit else 0.0
        raise KeyError(n)


def ev_x(tree, vals, t):
    env = XEnv(vals, t=t)
    # MOD: judged for positive operands only
    v = _ev(tree, env)
    return v, env.min_dist


def _ev(a, env):
    if a[0] == "bin" and a[1] == "%":
        x, y = _ev(a[2], env), _ev(a[3], env)
        if x < 0 or y <= 1e-6:
            raise X.IllConditioned("MOD sign")
        q = x / y
        env.cond((q - round(q)) * y)
        X.mod_conditioning(x, x % y)
        return X._num(x % y)
    if a[0] == "bin":
        return X.ev(["bin", a[1], ["num", _ev(a[2], env)], ["num", _ev(a[3], env)]], env)
    if a[0] == "neg":
        return -_ev(a[1], env)
    if a[0] in ("cmp",):
        x, y = _ev(a[2], env), _ev(a[3], env)
        if not (a[2][0] in ("ref", "num", "time") and a[3][0] in ("ref", "num", "time")):
            env.cond(x - y, max(abs(x), abs(y)))      # leaves are exact: a comparison of two equal leaves is well defined
        return X.CMPOPS[a[1]](x, y)
    if a[0] == "if":
        return _ev(a[2], env) if _ev(a[1], env) else _ev(a[3], env)
    if a[0] == "and":
        return _ev(a[1], env) and _ev(a[2], env)
    if a[0] == "or":
        return _ev(a[1], env) or _ev(a[2], env)
    if a[0] == "not":
        return not _ev(a[1], env)
    if a[0] == "call" and a[1] == "LOOKUP":
        pts = GFS[a[2][1]][1]
        x = _ev(a[3], env)
        if x <= pts[0][0]:
            return pts[0][1]
        if x >= pts[-1][0]:
            return pts[-1][1]
        for (x0, y0), (x1, y1) in zip(pts, pts[1:]):
            if x0 <= x <= x1:
                return X._num(y0 + (y1 - y0) * (x - x0) / (x1 - x0))
    if a[0] == "call" and a[1] == "INIT":
        # the value the argument had at the start of the run
        return _ev(a[2], env.at(float(RUN["start"])))
    if a[0] == "call" and a[1] == "DELAY":
        # DELAY(input, d[, initial]) with d a literal multiple of dt: input as of d ago; before that the given initial value (generated
        # time-free), or else the input's value at the start of the run
        d = a[3][1]
        if env.t - float(RUN["start"]) < d:
            return _ev(a[4], env) if len(a) > 4 else _ev(a[2], env.at(float(RUN["start"])))
        return _ev(a[2], env.at(env.t - d))
    if a[0] == "call" and a[1] in ("DELAY1", "SMTH3", "DELAY3", "SMTHN", "DELAYN"):
        # n-th order exponential smooth / material delay (identical for a constant time): a cascade of n first-order stages with
        # time T/n each, all starting at the initial value (given, or else the input's value at the start), integrated with Euler on the grid
        start, dt = float(RUN["start"]), float(RUN["dt"])
        if a[1] in ("SMTHN", "DELAYN"):
            order, init_at = int(a[4][1]), 5
        else:
            order, init_at = (1 if a[1] == "DELAY1" else 3), 4
        tau = a[3][1] / order
        init = _ev(a[init_at], env.at(start)) if len(a) > init_at else _ev(a[2], env.at(start))
        levels = [init] * order
        for j in range(int(round((env.t - start) / dt))):
            x = _ev(a[2], env.at(start + j * dt))
            ins = [x] + levels[:-1]
            levels = [X._num(l + dt * (i_ - l) / tau) for l, i_ in zip(levels, ins)]
        return levels[-1]
    if a[0] == "call":
        return env.builtin(["call", a[1]] + [["num", _ev(z, env)] for z in a[2:]])
    if a[0] in ("dt", "starttime", "stoptime", "pi"):
        return env.builtin(a)
    return X.ev(a, env)


REFS = [["ref", n] for n, _ in CONSTS[:6]] + [["ref", "rate+x#1"]]


def leaf(rng):
    r = rng.random()
    if r < 0.65:
        return rng.choice(REFS)
    if r < 0.85:
        return ["num", rng.choice([2.0, 0.25, 3.0, 10.0, 1.5, 1234.5678, 3.14159265, 0.000123456789, -2.0, -0.5, -3.0])]
    if r < 0.91:
        return ["time"]
    if r < 0.94:
        return rng.choice([["dt"], ["starttime"], ["stoptime"], ["pi"]])
    if r < 0.97:
        return ["ref", CLOCKVAR[0]]
    return ["ref", "nu"]


def rand_cond(rng, depth):
    def cmp_():
        return ["cmp", rng.choice(CMP[:4]), rand_tree(rng, depth - 1), rand_tree(rng, depth - 1)]
    r = rng.random()
    if r < 0.5:
        return cmp_()
    if r < 0.65:
        return ["not", cmp_()]
    if r < 0.8:
        return ["and", cmp_(), cmp_()]
    if r < 0.9:
        return ["or", cmp_(), cmp_()]
    return ["or", ["and", cmp_(), cmp_()], cmp_()]


def rand_tree(rng, depth):
    if depth <= 0:
        return leaf(rng)
    r = rng.random()
    if r < 0.55:
        op = rng.choice(BIN + ["+", "-", "*", "/"])
        a, b = rand_tree(rng, depth - 1), rand_tree(rng, depth - 1)
        if op == "**":
            b = rng.choice([["num", 2.0], ["num", 0.5], ["ref", "Delta Eps"], ["neg", ["num", 1.0]], b])
        return ["bin", op, a, b]
    if r < 0.65:
        return ["neg", rand_tree(rng, depth - 1)]
    if r < 0.78:
        return ["if", rand_cond(rng, depth), rand_tree(rng, depth - 1), rand_tree(rng, depth - 1)]
    if r < 0.9:
        return ["call", rng.choice(FN1), rand_tree(rng, depth - 1)]
    k = rng.choice(["MIN", "MAX", "SAFEDIV", "SAFEDIV3", "STEP", "RAMP", "INIT", "DELAY", "DELAY3", "ROOTN", "SMOOTH"] + ["LOOKUP"] * _LK[0])
    if k == "LOOKUP":
        return ["call", "LOOKUP", ["ref", rng.choice(sorted(GFS))], rand_tree(rng, depth - 1)]
    if k == "SMOOTH":
        f = rng.choice(["DELAY1", "SMTH3", "DELAY3", "SMTHN", "DELAYN"])
        # (the smooth family takes a variable as its input stream; any other expression there is rejected loudly at evaluation time)
        args = [rng.choice([["ref", CLOCKVAR[0]], ["ref", CLOCKVAR[0]]] + REFS), ["num", rng.choice([2.0, 3.0, 4.0])]]
        if f in ("SMTHN", "DELAYN"):
            args.append(["num", rng.choice([1.0, 2.0, 3.0])])
        if rng.random() < 0.4:
            args.append(rng.choice(REFS + [["num", 7.0]]))
        return ["call", f] + args
    if k == "INIT":
        return ["call", "INIT", rand_tree(rng, depth - 1)]
    if k == "DELAY":
        return ["call", "DELAY", rand_tree(rng, depth - 1), ["num", rng.choice([0.5, 1.0, 2.0])]]
    if k == "DELAY3":
        return ["call", "DELAY", rand_tree(rng, depth - 1), ["num", rng.choice([0.5, 1.0, 2.0])], rng.choice(REFS + [["num", 99.0]])]
    if k == "ROOTN":
        return ["call", "ROOTN", rand_tree(rng, depth - 1), ["num", rng.choice([2.0, 3.0])]]
    if k == "SAFEDIV3":
        return ["call", "SAFEDIV", rand_tree(rng, depth - 1), rand_tree(rng, depth - 1), ["num", 9.0]]
    if k in ("STEP", "RAMP"):
        return ["call", k, rand_tree(rng, depth - 1), ["num", rng.choice([1.25, 2.0, 3.75])]]
    return ["call", k, rand_tree(rng, depth - 1), rand_tree(rng, depth - 1)]


def table():
    """(key, tree) for the exhaustive depth-2 part."""
    out = []
    A, B, C = REFS[0], REFS[1], REFS[2]
    D, E = REFS[6], REFS[5]
    inners = [(op, ["bin", op, B, C]) for op in BIN] + [("neg", ["neg", B])]
    for op in BIN:
        for (iname, inner) in inners:
            out.append(("%s@0<-%s" % (op, iname), ["bin", op, inner, D]))
            out.append(("%s@1<-%s" % (op, iname), ["bin", op, A, inner]))
    for (iname, inner) in inners:
        out.append(("neg<-%s" % iname, ["neg", inner]))
        for c in CMP:
            out.append(("if-cmp%s@0<-%s" % (c, iname), ["if", ["cmp", c, inner, D], A, E]))
            out.append(("if-cmp%s@1<-%s" % (c, iname), ["if", ["cmp", c, A, inner], D, E]))
        out.append(("if-then<-%s" % iname, ["bin", "+", ["if", ["cmp", "<", A, B], inner, D], E]))
        out.append(("if-else<-%s" % iname, ["bin", "*", E, ["if", ["cmp", "<", A, B], D, inner]]))
        for f in FN1:
            out.append(("%s<-%s" % (f, iname), ["call", f, inner]))
            out.append(("%s-in-%s" % (f, iname), ["bin", "-", A, ["call", f, inner]]))
        for f in ("MIN", "MAX", "SAFEDIV"):
            out.append(("%s@0<-%s" % (f, iname), ["call", f, inner, D]))
            out.append(("%s@1<-%s" % (f, iname), ["call", f, A, inner]))
        out.append(("SAFEDIV3<-%s" % iname, ["call", "SAFEDIV", A, ["bin", "-", B, B], inner]))
        out.append(("SINWAVE@0<-%s" % iname, ["call", "SINWAVE", inner, D]))
        out.append(("SINWAVE@1<-%s" % iname, ["call", "SINWAVE", A, inner]))
        out.append(("COSWAVE@0<-%s" % iname, ["call", "COSWAVE", inner, D]))
        out.append(("COSWAVE@1<-%s" % iname, ["call", "COSWAVE", A, inner]))
        out.append(("PULSE<-%s" % iname, ["call", "PULSE", inner, ["num", 1.5], ["num", 1.0]]))
        out.append(("STEP<-%s" % iname, ["call", "STEP", inner, ["num", 1.25]]))
        out.append(("RAMP<-%s" % iname, ["call", "RAMP", inner, ["num", 1.25]]))
    # LOOKUP(gf, x): arguments on and off the time grid, outside the table's range, moving with time, as operands
    for g in sorted(GFS):
        G = ["ref", g]
        for (xn, x) in (("offgrid", ["num", 3.37]), ("ongrid", ["num", 2.5]), ("below", ["neg", ["num", 7.0]]), ("above", ["num", 12.5]), ("ref", A), ("quot", ["bin", "/", A, B]),
                        ("time", ["bin", "*", ["time"], ["num", 0.77]]), ("diff", ["bin", "-", D, ["bin", "/", E, B]])):
            out.append(("LOOKUP-%s-%s" % (g, xn), ["call", "LOOKUP", G, x]))
            out.append(("LOOKUP-%s-%s-operand" % (g, xn), ["bin", "-", A, ["bin", "*", ["call", "LOOKUP", G, x], B]]))
    # INIT / DELAY of arguments that move with time (TIME itself, a moving variable, compounds of them), alone and as operands
    T, CV = ["time"], ["ref", CLOCKVAR[0]]
    movers = [("time", T), ("clockvar", CV)] + [("time%s" % op, ["bin", op, T, B]) for op in BIN] + [("clockvar%s" % op, ["bin", op, B, CV]) for op in ("+", "-", "*", "/")] + \
             [("neg-time", ["neg", T]), ("if-time", ["if", ["cmp", ">", T, ["num", 2.25]], CV, A]), ("init-in-delay", ["call", "INIT", ["bin", "*", T, B]]),
              ("delay-in", ["call", "DELAY", CV, ["num", 0.5]]), ("sin-time", ["call", "SIN", T]), ("step-time", ["call", "STEP", B, ["num", 2.25]])]
    for (iname, inner) in movers:
        out.append(("INIT<-%s" % iname, ["call", "INIT", inner]))
        out.append(("INIT-in-<-%s" % iname, ["bin", "-", A, ["bin", "*", ["call", "INIT", inner], T]]))
        for d in (0.5, 1.0, 3.0):
            out.append(("DELAY%s<-%s" % (d, iname), ["call", "DELAY", inner, ["num", d]]))
            out.append(("DELAY3%s<-%s" % (d, iname), ["call", "DELAY", inner, ["num", d], E]))
        out.append(("DELAY-in-<-%s" % iname, ["bin", "-", A, ["bin", "**", ["call", "DELAY", inner, ["num", 1.0]], ["num", 2.0]]]))
    for (iname, inner) in (("clockvar", CV), ("const", B)):
        for f, extra in (("DELAY1", []), ("SMTH3", []), ("DELAY3", []), ("SMTHN", [["num", 2.0]]), ("DELAYN", [["num", 3.0]])):
            out.append(("%s<-%s" % (f, iname), ["call", f, inner, ["num", 3.0]] + extra))
            out.append(("%s-init<-%s" % (f, iname), ["call", f, inner, ["num", 2.0]] + extra + [E]))
            out.append(("%s-in-<-%s" % (f, iname), ["bin", "-", A, ["bin", "**", ["call", f, inner, ["num", 4.0]] + extra, ["num", 2.0]]]))
    for (iname, inner) in inners:
        out.append(("ROOTN<-%s" % iname, ["call", "ROOTN", inner, ["num", 3.0]]))
        out.append(("ROOTN-in-<-%s" % iname, ["bin", "/", A, ["call", "ROOTN", inner, ["num", 2.0]]]))
    for nm in ("dt", "starttime", "stoptime", "pi"):
        for op in BIN:
            out.append(("%s@0-%s" % (nm, op), ["bin", op, [nm], B]))
            out.append(("%s@1-%s" % (nm, op), ["bin", op, A, [nm]]))
        out.append(("neg-%s" % nm, ["bin", "**", ["neg", [nm]], ["num", 2.0]]))
    # negative literals (always written in parentheses unless they start the equation) in every operand position
    for lit in (-2.0, -0.5, -3.0):
        L = ["num", lit]
        for op in BIN:
            out.append(("neglit%g@0-%s" % (lit, op), ["bin", op, L, ["num", 2.0]]))
            out.append(("neglit%g@1-%s" % (lit, op), ["bin", op, A, L]))
            out.append(("neglit%g@0-%s-in-product" % (lit, op), ["bin", "*", B, ["bin", op, L, ["num", 2.0]]]))
        out.append(("neglit%g-power-in-if" % lit, ["if", ["cmp", ">", ["bin", "**", L, ["num", 2.0]], ["num", 0.0]], D, E]))
        out.append(("neglit%g-double-parens" % lit, ["bin", "-", A, ["bin", "**", ["bin", "*", L, ["num", 1.0]], ["num", 2.0]]]))
        for f in ("ABS", "MIN"):
            out.append(("neglit%g-in-%s" % (lit, f), ["call", f, L] if f == "ABS" else ["call", f, L, B]))
    for k_ in range(0, 7):
        out.append(("FACTORIAL-%d" % k_, ["bin", "-", A, ["call", "FACTORIAL", ["num", float(k_)]]]))
    c1, c2, c3 = ["cmp", "<", A, B], ["cmp", ">", ["bin", "+", B, C], D], ["cmp", "==", C, C]
    for key, cond in (("and", ["and", c1, c2]), ("or", ["or", c1, c2]), ("and-or", ["or", ["and", c1, c2], c3]), ("or-and", ["or", c1, ["and", c2, c3]]),
                      ("not", ["not", c1]), ("not-and", ["and", ["not", c1], c2]), ("and-and", ["and", ["and", c2, c3], c1])):
        out.append(("if-" + key, ["if", cond, A, D]))
    # IF as the (possibly unparenthesised) right operand of + and -, with a true and with a false condition
    cf = ["cmp", ">", A, ["bin", "*", A, ["num", 2.0]]]
    for op in ("+", "-"):
        out.append(("if-as-right-operand-true@%s" % op, ["bin", op, C, ["if", c1 if False else ["cmp", "<", B, A], ["num", 10.0], ["num", 20.0]]]))
        out.append(("if-as-right-operand-false@%s" % op, ["bin", op, C, ["if", cf, ["num", 10.0], ["num", 20.0]]]))
        out.append(("if-as-right-operand-in-arg@%s" % op, ["call", "MIN", ["bin", op, C, ["if", cf, B, A]], ["num", 100.0]]))
        out.append(("if-in-else-branch@%s" % op, ["if", cf, A, ["bin", op, C, ["if", cf, B, D]]]))
    # comparisons of exactly equal operands (every operator, plain and under NOT) and of TIME with a grid time
    TW = ["ref", "alpha_twin"]
    for c in CMP:
        out.append(("equal-operands-cmp%s" % c, ["if", ["cmp", c, A, TW], D, E]))
        out.append(("equal-operands-not-cmp%s" % c, ["if", ["not", ["cmp", c, A, TW]], D, E]))
        out.append(("time-at-threshold-cmp%s" % c, ["if", ["cmp", c, ["time"], ["num", 1.5]], D, E]))
        out.append(("time-at-threshold-not-cmp%s" % c, ["if", ["not", ["cmp", c, ["time"], ["num", 1.5]]], D, E]))
    # literals with many significant digits
    out.append(("long-literal-diff", ["bin", "+", ["bin", "-", ["num", 1000001.0], ["num", 1000000.0]], A]))
    out.append(("long-literal-pi", ["bin", "*", ["num", 3.14159265], A]))
    out.append(("long-literal-small", ["bin", "*", ["num", 0.000123456789], A]))
    out.append(("long-literal-threshold", ["if", ["cmp", ">", ["num", 7.0], ["num", 6.9999999]], D, E]))
    out.append(("nested-if-then", ["if", c1, ["if", c2, A, B], C]))
    out.append(("nested-if-else", ["if", c1, A, ["if", c2, B, C]]))
    return out


STYLES = ["plain", "tight", "lower-loose", "redundant-quoted"]


def style(i, rng):
    names = {}
    if i == 0:
        st = XM.Style(rng, spaces=True, case="upper")
        for n, _ in CONSTS:
            names[n] = n.replace(" ", "_")
    elif i == 1:
        st = XM.Style(rng, spaces=False, case="upper", bare_if=True)
        for n, _ in CONSTS:
            names[n] = n.replace(" ", "_").upper()
    elif i == 2:
        st = XM.Style(rng, spaces="random", case="lower", bare_if=True)
        for n, _ in CONSTS:
            names[n] = n.replace(" ", "_").lower()
    else:
        st = XM.Style(rng, spaces=True, case="mixed", redundant=0.5)
        for n, _ in CONSTS:
            names[n] = n.replace(" ", "_").capitalize()
    names[CLOCKVAR[0]] = {0: "clock_var", 1: "CLOCK_VAR", 2: "clock_var", 3: "Clock_Var"}[i]
    names["rate+x#1"] = '"rate+x#1"' if i != 2 else '"RATE+X#1"'     # a name with operator characters is always quoted
    st.names = names
    return st


LOUD = [("unknown-function", "FOO(alpha) + 1"), ("unknown-function-nested", "alpha * BARBAZ(beta_gamma, 2)"), ("dangling-operator", "alpha + "),
        ("dangling-mul", "alpha * "), ("unbalanced-open", "(alpha + beta_gamma"), ("unbalanced-close", "alpha + beta_gamma)"),
        ("unknown-identifier", "alpha + no_such_variable"), ("if-without-then", "IF alpha > 1 ELSE 3"), ("then-without-if", "alpha THEN 2 ELSE 3"),
        ("double-operator", "alpha * / beta_gamma"), ("bare-comparison-chain", "alpha < beta_gamma < 3 < 1")]


def gen_cases(tier, seed):
    cases = [dict(kind="table", style=i, part=p, parts=3, modules=(i + p) % 3 == 0) for i in range(4) for p in range(3)]
    rng = random.Random(300 + seed)
    for i in range(36 if tier == "quick" else 2400):
        cases.append(dict(kind="random", seed=rng.randrange(10 ** 9), n=24, modules=(i % 3 == 0)))
    for name, eqn in LOUD:
        cases.append(dict(kind="loud", name=name, eqn=eqn))
    return cases


def EXHAUSTIVE(tier):
    return False


_mon = {"nodes": {}, "warnings": []}


def worker_init():
    try:
        import importlib
        P = importlib.import_module("BPTK_Py.sdcompiler.generator.py.py")
        orig = P.parseExpression

        def parseExpression(expression):
            if isinstance(expression, dict):
                k = "%s:%s" % (expression.get("type"), str(expression.get("name"))[:12] if expression.get("type") in ("operator", "call") else "")
                _mon["nodes"][k] = _mon["nodes"].get(k, 0) + 1
            return orig(expression)
        P.parseExpression = parseExpression
    except Exception:
        pass

    class H(logging.Handler):
        def emit(self, record):
            _mon["warnings"].append(record.getMessage()[:120])
    logging.getLogger().addHandler(H())


def _P():
    import importlib
    return importlib.import_module("BPTK_Py.sdcompiler.generator.py.py")


def naive_differs(tree, vals, t, ref):
    """Does pasting compound operands without parentheses change the value? (python text evaluation)"""
    def txt(a):
        k = a[0]
        if k == "num":
            return repr(float(a[1]))
        if k == "ref":
            return repr(float(vals[a[1]]))
        if k == "time":
            return repr(t)
        if k == "bin":
            return "%s%s%s" % (txt(a[2]), a[1], txt(a[3]))
        if k == "neg":
            return "-" + txt(a[1])
        raise KeyError(k)
    try:
        return not X.close(eval(txt(tree)), ref)
    except Exception:
        return False


_count = [0]


def run_case(case):
    counters = {}
    n0 = sum(_mon["nodes"].values())
    vals = {n: v for n, v in CONSTS}
    _count[0] += 1
    mod = "x%d_%d" % (os.getpid(), _count[0])
    os.makedirs("xm", exist_ok=True)
    if case["kind"] == "loud":
        els = [dict(kind="aux", name=n, eqn=repr(v) if v >= 0 else str(v)) for n, v in CONSTS] + [dict(kind="aux", name="bad", eqn=case["eqn"]), dict(kind="aux", name="good", eqn="alpha + 1")]
        del _mon["warnings"][:]
        try:
            cls, src, dest = XM.compile_and_load(XM.document(mod, RUN, els), "xm", mod)
            m = cls()
            v = m.equation("bad", 1.0)
        except BaseException as e:
            counters["loud_cases"] = 1
            counters["documents_compiled"] = 1
            return dict(verdict="held", counters=counters, sample=dict(case=case, failed_with=type(e).__name__))
        finally:
            cleanup(mod)
        return dict(verdict="violated", counters=counters, mech="silent-value:" + case["name"].split("-nested")[0],
                    witness=dict(equation=case["eqn"], value=repr(v), warnings=_mon["warnings"][-2:]))
    rng = random.Random(case.get("seed", case.get("style", 0)))
    _LK[0] = not case.get("modules")      # (graphical functions are kept out of the module documents)
    eqs = []      # (var name, key, tree, style index)
    if case["kind"] == "table":
        tab = table()[case["part"]::case["parts"]]
        for i, (key, tree) in enumerate(tab):
            if has_lookup(tree) and case.get("modules"):
                continue
            eqs.append(("e%d" % i, key, tree, case["style"]))
    else:
        for i in range(case["n"]):
            tree = rand_tree(rng, rng.choice([2, 3, 4, 5]))
            for sidx in rng.sample(range(4), 2):
                eqs.append(("r%d_s%d" % (i, sidx), None, tree, sidx))
    els = [dict(kind="aux", name=n, eqn=(repr(v) if v >= 0 else "0 - %r" % abs(v))) for n, v in CONSTS] + [dict(kind="aux", name=CLOCKVAR[0], eqn=CLOCKVAR[1])] + [dict(g) for g in GF_ELS]
    styles = {i: style(i, random.Random(i)) for i in range(4)}
    printed = {}
    from BPTK_Py.sdcompiler.parsers.smile.grammar import grammar, SMILEVisitor
    kept = []
    nonneg = []
    for (vn, key, tree, sidx) in eqs:
        try:
            txt = XM.pr(tree, styles[sidx])
        except Exception as e:
            return dict(verdict="inconclusive", witness=dict(harness="printer", error=repr(e), tree=tree))
        try:
            # the per-equation stages of the real pipeline (parse -> IR -> code); an exception is a loud rejection, which the property allows
            ir = SMILEVisitor().visit(grammar.parse(txt))
            _P().parseExpression(ir)
        except Exception:
            counters["rejected_by_parser"] = counters.get("rejected_by_parser", 0) + 1
            counters["rejected:" + (key.split("<-")[0].split("@")[0] if key else "deep")] = 1
            continue
        printed[vn] = txt
        kept.append((vn, key, tree, sidx))
        els.append(dict(kind="aux", name=vn, eqn=txt))
        if len(kept) % 4 == 0:
            # the same equation as a flow marked <non_negative/>: XMILE semantics clamp it at zero
            els.append(dict(kind="flow", name="nf_" + vn, eqn=txt, non_negative=True))
            nonneg.append((vn, key, tree, sidx))
    eqs = kept
    # every third document repeats all its variables, with the same equation texts but other constant values, in two named
    # modules: an unqualified name resolves inside the model that contains the equation
    scopes = [("", vals)]
    modules = None
    connects = {}
    wiring = {}
    wired_src = ["alpha", "ZETA", None]
    if case.get("modules"):
        modules = {}
        for mname, (fa, fb) in (("NorthEast", (1.5, 0.25)), ("South Wing", (0.5, 1.0))):      # (a capital inside a word: XMILE names are case-insensitive)
            mvals = {n: v * fa + (fb if v >= 0 else -fb) for n, v in CONSTS}
            mvals["alpha_twin"] = mvals["alpha"]
            mels = [dict(kind="aux", name=n, eqn=(repr(mvals[n]) if mvals[n] >= 0 else "0 - %r" % abs(mvals[n]))) for n, v in CONSTS] + \
                   [dict(kind="aux", name=CLOCKVAR[0], eqn=CLOCKVAR[1])] + [dict(kind="aux", name=vn, eqn=printed[vn]) for (vn, key, tree, sidx) in eqs]
            # a module input wired to a variable of the root model by a <connect>, and a variable that uses it
            mels.append(dict(kind="aux", name="wired in", access="input", eqn="100"))
            mels.append(dict(kind="aux", name="wired_probe", eqn="wired_in * 2 - 1"))
            modules[mname] = mels
            scopes.append((sname(mname) + ".", mvals))
            # which root variable feeds the input differs from document to document (one module in three is left unwired: its input keeps
            # its placeholder) - nothing of an earlier document's wiring may survive in this process
            src = wired_src[(case.get("seed", case.get("part", 0)) + len(connects)) % 3]
            wiring[sname(mname) + "."] = src
            if src is not None:
                connects[mname] = [("%s.wired_in" % mname.replace(" ", "_"), src)]
        counters["documents_with_modules"] = 1
    try:
        # (every other document with modules lists the sub-models BEFORE the root model that declares and wires them)
        cls, src, dest = XM.compile_and_load(XM.document(mod, RUN, els, modules=modules, connects=connects, modules_first=bool(modules) and case.get("seed", case.get("part", 0)) % 2 == 1), "xm", mod)
        m = cls()
    except Exception as e:
        cleanup(mod)
        # find the culprit equation by bisection is not needed for a verdict: an in-grammar document must compile
        import traceback
        return dict(verdict="violated", counters=counters, mech="in-grammar-document-rejected",
                    witness=dict(error=traceback.format_exc()[-500:], equations={k: v for k, v in list(printed.items())[:6]}))
    counters["documents_compiled"] = 1
    nts = []
    w = None
    groups = {}
    try:
        if modules and w is None:
            # the same process compiles more small documents in which the module's two inputs are wired differently: both wired, then only the
            # second one (the first keeps its placeholder), then the other way round - nothing of an earlier document's wiring may survive
            plans = [dict(a="alpha", b="ZETA"), dict(a=None, b="alpha"), dict(a="ZETA", b=None), dict(a=None, b=None)]
            for step_, plan in enumerate(plans):
                mod2 = "%s_f%d" % (mod, step_)
                mels2 = [dict(kind="aux", name="wired in", access="input", eqn="100"), dict(kind="aux", name="other in", access="input", eqn="1000"),
                         dict(kind="aux", name="wired_probe", eqn="wired_in * 2 - 1"), dict(kind="aux", name="other_probe", eqn="other_in + 1")]
                els2 = [dict(kind="aux", name="alpha", eqn="7"), dict(kind="aux", name="ZETA", eqn="1.5")]
                cons = [("HRdept.wired_in", plan["a"])] * bool(plan["a"]) + [("HRdept.other_in", plan["b"])] * bool(plan["b"])
                cls2, _s2, _d2 = XM.compile_and_load(XM.document(mod2, RUN, els2, modules={"HRdept": mels2}, connects={"HRdept": cons} if cons else {}, modules_first=bool(step_ % 2)), "xm", mod2)
                m2 = cls2()
                val = {"alpha": 7.0, "ZETA": 1.5}
                try:
                    got2 = (m2.equation(sname("HRdept") + ".wiredProbe", 1.5), m2.equation(sname("HRdept") + ".otherProbe", 1.5))
                except Exception as e:
                    cleanup(mod2)
                    w = dict(kind="in-grammar-equation-raises", scope=sname("HRdept") + ".", equation="wired_in * 2 - 1 ; other_in + 1", tree="-", t=1.5, error="%s: %s" % (type(e).__name__, str(e)[:150]),
                             note="a variable of a module named HRdept is not found under the module's (case-insensitive) name")
                    break
                want2 = ((val[plan["a"]] if plan["a"] else 100.0) * 2 - 1, (val[plan["b"]] if plan["b"] else 1000.0) + 1)
                cleanup(mod2)
                counters["rewired_follow_up_documents"] = counters.get("rewired_follow_up_documents", 0) + 1
                if not (X.close(got2[0], want2[0]) and X.close(got2[1], want2[1])):
                    w = dict(kind="value", key="module-rewired-in-a-later-document", scope=sname("HRdept") + ".", equation="wired_in * 2 - 1 ; other_in + 1", style="plain", tree="-", t=1.5,
                             got=[float(x) for x in got2], expected=list(want2), wiring=plan, earlier_documents=plans[:step_])
                    break
        for (vn, key, tree, sidx) in ([] if w else nonneg):
            for t in TIMES:
                try:
                    ref, dist = ev_x(tree, vals, t)
                    if dist < 1e-6 or isinstance(ref, bool) or abs(ref) < 1e-6:
                        continue
                except (X.IllConditioned, OverflowError, ZeroDivisionError, ValueError):
                    continue
                got = m.equation(sname("nf_" + vn), t)
                counters["non_negative_flows_compared"] = counters.get("non_negative_flows_compared", 0) + 1
                if not X.close(got, max(0.0, ref), rel=1e-9, ab=1e-10):
                    w = dict(kind="value", key="non-negative-flow", scope="", equation=printed[vn], style=STYLES[sidx], tree=X.show(tree), t=t, got=float(got), expected=max(0.0, ref),
                             note="a flow marked <non_negative/> with this equation")
                    break
            if w:
                break
        for (scope, _sv) in ([] if w else scopes[1:]):
            # the wired input is the root's alpha
            try:
                got = m.equation(scope + "wiredProbe", 1.5)
            except Exception as e:
                w = dict(kind="in-grammar-equation-raises", scope=scope, equation="wired_in * 2 - 1", tree="(wired_in * 2 - 1)", t=1.5, error="%s: %s" % (type(e).__name__, str(e)[:150]))
                break
            counters["wired_inputs_checked"] = counters.get("wired_inputs_checked", 0) + 1
            want = (vals[wiring[scope]] if wiring[scope] is not None else 100.0) * 2 - 1
            if not X.close(got, want, rel=1e-9, ab=1e-10):
                w = dict(kind="value", key="module-input-wired-by-connect", scope=scope, equation="wired_in * 2 - 1", style="plain", tree="(wired_in * 2 - 1)", t=1.5,
                         got=float(got), expected=want, wired_to=wiring[scope])
                break
        for (scope, svals), (vn, key, tree, sidx) in ([] if w else [(sc, e) for sc in scopes for e in eqs]):
            for t in TIMES:
                try:
                    ref, dist = ev_x(tree, svals, t)
                    if dist < 1e-6 or isinstance(ref, bool):
                        raise X.IllConditioned("near discontinuity")
                except X.IllConditioned:
                    counters["illcond"] = counters.get("illcond", 0) + 1
                    continue
                except (OverflowError, ZeroDivisionError, ValueError):
                    counters["illcond"] = counters.get("illcond", 0) + 1
                    continue
                try:
                    got = m.equation(scope + sname(vn), t)
                except Exception as e:
                    w = dict(kind="in-grammar-equation-raises", scope=scope, equation=printed[vn], tree=X.show(tree), t=t, error="%s: %s" % (type(e).__name__, str(e)[:150]))
                    break
                counters["variables_compared"] = counters.get("variables_compared", 0) + 1
                if not X.close(got, ref, rel=1e-9, ab=1e-10):
                    w = dict(kind="value", key=key, scope=scope, equation=printed[vn], style=STYLES[sidx], tree=X.show(tree), t=t, got=float(got), expected=ref,
                             python=getattr(m, "equations", {}).get(sname(vn)) and "see generated module")
                    break
                if naive_differs(tree, svals, t, ref) if all(n[0] in ("bin", "neg", "num", "ref", "time") for n in [tree]) else True:
                    nts.append(key or ("tree:" + X.show(tree)))
            if w:
                break
    finally:
        if w is not None and w.get("kind") == "value":
            try:
                for line in open(dest):
                    if "'%s'" % sname(w["equation"] and [v for v in printed if printed[v] == w["equation"]][0]) in line and "lambda" in line:
                        w["generated"] = line.strip()[:300]
                        break
            except Exception:
                pass
        cleanup(mod)
    counters["ir_nodes_seen"] = sum(_mon["nodes"].values()) - n0
    for k in list(_mon["nodes"]):
        counters["ir:" + k] = _mon["nodes"][k]
    _mon["nodes"].clear()
    if w is not None:
        fam = w.get("key") or "deep"
        mech = "%s:%s" % (w["kind"], fam.split("<-")[0].split("@")[0] if w["kind"] == "value" and w.get("key") else w["kind"])
        return dict(verdict="violated", nt=nts[:300], counters=counters, mech=mech, witness=w)
    return dict(verdict="held", nt=nts[:300], counters=counters, sample=dict(case=case, example={k: printed[k] for k in list(printed)[:3]}))


def cleanup(mod):
    for ext in (".py", ".stmx"):
        try:
            os.remove(os.path.join("xm", mod + ext))
        except OSError:
            pass


def finalize(agg):
    ir = {k[3:]: v for k, v in agg["counters"].items() if k.startswith("ir:")}
    ops = sorted(k for k in ir if k.startswith("operator:"))
    calls = sorted(k for k in ir if k.startswith("call:"))
    return dict(programs=agg["counters"].get("documents_compiled", 0), disagreements_checked=agg["counters"].get("variables_compared", 0),
                ir_operator_rows_reached=ops, ir_builtin_rows_reached=calls)
