"""C20 - after a server crash, externalised sessions continue as if nothing happened.

Fault enumeration: for every generated session history (1-3 externalised
instances, settings on some steps) EVERY crash point k between two requests is
taken: the first k requests run on server A, A is discarded (a subset: a real
child process killed with os._exit), server B is started on the same state
directory and serves the remaining requests.  Oracle: the uninterrupted run of
the same history.  Torn writes: the state write of request k is cut at every
truncation class (failpoint on the adapter's open(), and post-hoc truncation),
then B must start, restore the other instances and lose at most the torn one."""
import copy
import json
import os
import random
import subprocess
import sys
import tempfile

ID = "C20"
LEVEL = "fault_enumeration"
TECHNIQUE = "crash-point and torn-write enumeration with an uninterrupted-run differential at the HTTP boundary"
RULE = ("histories of 3-8 stepping requests (run-step with one or several constants / points / {} / no body, run-steps(2), session-results) per instance, 1-3 "
        "instances, scenarios with and without run-spec overrides, begin-session with and without settings, start in {0,1,2.5,8,9,98} (session clocks crossing 10 and 100), dt in {1, .5, .25}, plus sessions of 420 / 700 steps (without settings, with a setting early in the session, with begin settings); ALL crash points k=0..N (a session begun twice in a row included), every second one followed by a second crash two requests later; torn writes at truncation classes {0, 1, inside the outer JSON, "
        "inside the escaped inner JSON, len-1} via an open() failpoint during the write of request k and via post-hoc truncation; compress off "
        "(the compressed format's lossiness is C19's known finding) plus a lossless-shaped compressed subset; a subset repeated with a really "
        "killed child process. distinct_nontrivial = distinct (history, crash point) pairs in which a setting applied before the crash "
        "influences a value requested after it.")
ASSUMPTIONS = ["crash points lie between requests or inside the state write of a request; a crash inside a handler before the write equals 'request lost'",
               "in-process restart (discarding the server object) stands for process loss; a subset uses a real killed child to validate the shortcut",
               "responses compared as parsed JSON, numeric keys as floats"]
REQUIRED = {"crash_points_of_two_scenario_sessions": 10, "second_crashes": 40, "crash_points": 150, "post_crash_responses_compared": 1000, "torn_write_cases": 40, "servers_started_on_damaged_dir": 40}
BUDGET_S = {"quick": 170, "thorough": 1800}
TRUNC = ["0", "1", "outer", "inner", "len-1"]


def gen_cases(tier, seed):
    rng = random.Random(2000 + seed)
    cases = []
    for i in range(36 if tier == "quick" else 750):
        cases.append(dict(kind="crash", seed=rng.randrange(10 ** 9), ninst=rng.choice([1, 1, 2, 3]), compress=False))
    for i in range(6 if tier == "quick" else 120):
        cases.append(dict(kind="crash", seed=rng.randrange(10 ** 9), ninst=1, compress=True))
    for i in range(10 if tier == "quick" else 200):
        cases.append(dict(kind="torn", seed=rng.randrange(10 ** 9), ninst=rng.choice([2, 3]), via=["failpoint", "posthoc"][i % 2]))
    for i in range(3 if tier == "quick" else 12):
        cases.append(dict(kind="killed-child", seed=rng.randrange(10 ** 9)))
    for i in range(3 if tier == "quick" else 9):
        cases.append(dict(kind="long", seed=rng.randrange(10 ** 9), steps=[420, 700][i % 2], variant=i % 3))
    return cases


def make_history(rng, compress):
    from vlib.srv import MG
    start, dt = rng.choice([("1", "1"), ("0", "0.5"), ("2.5", "0.25"), ("1", "0.5"), ("8", "1"), ("9", "0.5"), ("98", "1"), ("0", "0.1"), ("0", "0.2"), ("0.3", "0.1")])
    if compress:
        start, dt = "1", "1"
    n = rng.randint(3, 8)
    if dt in ("0.1", "0.2"):
        n = rng.randint(10, 14)        # (decimal dt: rounding noise in a time that is walked step by step needs some steps to build up)
    reqs = []
    SC = "base" if compress else rng.choice(["base", "base", "fine"])
    begin = None
    if not compress and rng.random() < 0.4:
        begin = {MG: {SC: rng.choice([{"constants": {"rate": 0.8}}, {"points": {"curve": [[0.0, 1.5], [30.0, 1.5]]}}, {"constants": {"cap": 18.0, "rate": 0.3}}])}}
    for i in range(n):
        r = rng.random()
        if compress:
            reqs.append(("step", {"settings": {MG: {SC: {"constants": {"rate": rng.choice([0.2, 0.6, 0.9])}}}}}))
        elif r < 0.1:
            reqs.append(("step", {"settings": {MG: {SC: {"constants": {"rate": rng.choice([0.2, 0.6, 0.9, 1.3])}}}}}))
        elif r < 0.2:
            # a constant that feeds no stock (read with a delay by the requested element "billed")
            reqs.append(("step", {"settings": {MG: {SC: {"constants": {"tariff": rng.choice([0.5, 2.0, 3.0])}}}}}))
        elif r < 0.3:
            # several constants (and points) changed by one step
            st = {"constants": {"rate": rng.choice([0.2, 0.6, 0.9]), "cap": rng.choice([12.0, 50.0]), "tariff": rng.choice([0.5, 2.0])}}
            if rng.random() < 0.4:
                st["points"] = {"curve": [[0.0, 1.5], [6.0, 0.5], [30.0, 2.0]]}
            reqs.append(("step", {"settings": {MG: {SC: st}}}))
        elif r < 0.45:
            reqs.append(("step", {"settings": {MG: {SC: {"points": {"curve": rng.choice([[[0.0, 2.0], [9.0, 2.0]], [[0.0, 0.2], [3.0, 3.0], [8.0, 0.5]]])}}}}}))
        elif r < 0.6:
            reqs.append(("step", {"settings": {}}))
        elif r < 0.75:
            reqs.append(("step", None))
        elif r < 0.9:
            reqs.append(("steps", {"numberSteps": 2, "settings": {MG: {SC: {"constants": {"cap": rng.choice([15.0, 60.0])}}}} if rng.random() < 0.5 else {}}))
        else:
            reqs.append(("results", None))
    if not compress:
        from vlib.srv import EQS_X as EQS
        r = rng.random()
        if r < 0.3 and n >= 4:
            # a second session begun on the same instance (its state is shorter than what the file holds by then)
            body = {"scenario_managers": [MG], "scenarios": [rng.choice([SC, "alt"])], "equations": list(EQS)}
            if rng.random() < 0.5:
                body["settings"] = {MG: {body["scenarios"][0]: {"constants": {"rate": 0.7}}}}
            reqs.insert(rng.choice([0, 0, rng.randint(1, n - 2), rng.randint(2, n - 2)]), ("rebegin", body))      # also straight after the first begin-session
        elif r < 0.5:
            # the rest of the session streamed (stream-steps runs to the stop time), followed by 1-2 more requests
            reqs.insert(rng.randint(max(1, n - 3), n - 1), ("stream", {"settings": rng.choice([{}, {MG: {SC: {"constants": {"rate": 0.4}}}}])}))
    h = dict(start=start, dt=dt, reqs=reqs, scen=SC, begin=begin)
    if not compress and SC == "base" and rng.random() < 0.3 and not any(k == "rebegin" for (k, _b) in reqs):
        # a session over two scenarios of the manager, both configured by the begin-session settings
        h["scens"] = ["base", "alt"]
        h["begin"] = {MG: {"base": {"constants": {"rate": rng.choice([0.8, 0.35])}}, "alt": {"constants": {"rate": rng.choice([0.6, 0.15]), "cap": 22.0}}}}
    return h


def send(c, iid, req):
    kind, body = req
    if kind == "step":
        r = c.post("/%s/run-step" % iid, json=body) if body is not None else c.post("/%s/run-step" % iid)
    elif kind == "steps":
        r = c.post("/%s/run-steps" % iid, json=body)
    elif kind == "stream":
        r = c.post("/%s/stream-steps" % iid, json=body)
    elif kind == "rebegin":
        r = c.post("/%s/begin-session" % iid, json=body)
    else:
        r = c.get("/%s/session-results" % iid)
    txt = r.get_data(as_text=True)
    try:
        return r.status_code, json.loads(txt)
    except Exception:
        return r.status_code, txt[:200]


def canon(x):
    from checks.c19 import canon as c
    return c(x)


def open_server(tmp, hist, compress):
    from vlib import srv
    from decimal import Decimal as D
    stop = float(D(hist["start"]) + hist.get("horizon", 30) * D(hist["dt"]))
    return srv.make_server(srv.bptk_factory(start=float(hist["start"]), stop=stop, dt=float(hist["dt"])), state_dir=tmp, compress=compress)


counters_two = [0]


def start_instances(app, hists):
    from vlib import srv
    c = app.test_client()
    ids = []
    for h in hists:
        iid = json.loads(c.post("/start-instance", json={"timeout": {"hours": 4}}).get_data(as_text=True))["instance_uuid"]
        body = {"scenario_managers": [srv.MG], "scenarios": h.get("scens") or [h.get("scen", srv.SC)], "equations": list(srv.EQS_X)}
        if h.get("scens"):
            counters_two[0] += 1
        if h.get("begin"):
            body["settings"] = h["begin"]
        c.post("/%s/begin-session" % iid, json=body)
        ids.append(iid)
    return ids


def interleave(hists):
    """round-robin global order of (instance index, request index)"""
    order = []
    n = max(len(h["reqs"]) for h in hists)
    for j in range(n):
        for i, h in enumerate(hists):
            if j < len(h["reqs"]):
                order.append((i, j))
    return order


def missing_equation(resp):
    from vlib import srv
    status, js = resp
    if status != 200:
        return None
    items = js if isinstance(js, list) else [js]
    for it in items:
        if isinstance(it, dict) and srv.MG in it and isinstance(it[srv.MG], dict):
            for sc, res in it[srv.MG].items():
                if isinstance(res, dict) and "equations" not in res:
                    missing = [e for e in srv.EQS_X if e not in res]
                    if missing:
                        return missing
    return None


def influence(h, k_global, order, i):
    """does a setting given before the crash exist for instance i, and are steps requested after it?"""
    before = any(h["reqs"][j][1] and isinstance(h["reqs"][j][1], dict) and h["reqs"][j][1].get("settings") for (ii, j) in order[:k_global] if ii == i)
    after = any(h["reqs"][j][0] in ("step", "steps", "stream") for (ii, j) in order[k_global:] if ii == i)
    return before and after


def strip_earlier_sessions(hists):
    """control run of the classifier: the sessions that precede a re-begun session change no scenario setting"""
    for h in hists:
        rb = [n for n, r in enumerate(h["reqs"]) if r[0] == "rebegin"]
        if rb:
            h["begin"] = None
            for n in range(rb[-1]):
                kind, body = h["reqs"][n]
                if isinstance(body, dict) and body.get("settings"):
                    h["reqs"][n] = (kind, dict(body, settings={}))


def after_rebegin_with_settings(h, j):
    rb = [jj for jj, r in enumerate(h["reqs"]) if r[0] == "rebegin"]
    had = bool(rb) and (bool(h.get("begin")) or any(isinstance(r[1], dict) and r[1].get("settings") for r in h["reqs"][:rb[-1]]))
    return bool(rb) and j > rb[-1] and had


def run_crash(case, counters):
    from vlib import srv
    rng = random.Random(case["seed"])
    hists = [make_history(rng, case["compress"]) for _ in range(case["ninst"])]
    for h in hists[1:]:
        h["start"], h["dt"] = hists[0]["start"], hists[0]["dt"]     # one factory per server
    if case.get("strip_earlier_sessions"):
        strip_earlier_sessions(hists)
    order = interleave(hists)
    nts = []
    tmpU = tempfile.mkdtemp(prefix="c20u_", dir=".")
    U = open_server(tmpU, hists[0], case["compress"])
    try:
        idsU = start_instances(U, hists)
        cU = U.test_client()
        base = [send(cU, idsU[i], hists[i]["reqs"][j]) for (i, j) in order]
    finally:
        srv.destroy_server(U)
    import shutil
    shutil.rmtree(tmpU, True)
    for n, r in enumerate(base):
        m = missing_equation(r)
        if m:
            return dict(kind="equation-missing", run="uninterrupted", request=order[n], missing=m), nts
    # every crash point after the first stepping request of every instance
    # every crash point from k=0 on: since begin-session externalises the session (fix 5485807) an instance is externalised from the start
    first_ok = 0
    for k in range(first_ok, len(order) + 1):
        tmp = tempfile.mkdtemp(prefix="c20_", dir=".")
        A = open_server(tmp, hists[0], case["compress"])
        B = None
        try:
            ids = start_instances(A, hists)
            cA = A.test_client()
            for (i, j) in order[:k]:
                send(cA, ids[i], hists[i]["reqs"][j])
            srv.destroy_server(A)          # process loss: nothing but the state directory survives
            try:
                B = open_server(tmp, hists[0], case["compress"])
            except Exception as e:
                return dict(kind="restart-failed", crash_point=k, error="%s: %s" % (type(e).__name__, str(e)[:200])), nts
            counters["crash_points"] = counters.get("crash_points", 0) + 1
            if any(h.get("scens") for h in hists):
                counters["crash_points_of_two_scenario_sessions"] = counters.get("crash_points_of_two_scenario_sessions", 0) + 1
            cB = B.test_client()
            # every second crash point is followed by a SECOND crash two requests later (the recovered server has saved state of its own by then)
            k2 = k + 2 if (k % 2 == 0 and k + 2 < len(order)) else None
            for n in range(k, len(order)):
                if n == k2:
                    srv.destroy_server(B)
                    try:
                        B = open_server(tmp, hists[0], case["compress"])
                    except Exception as e:
                        return dict(kind="restart-failed", crash_point=k, second_crash_point=k2, error="%s: %s" % (type(e).__name__, str(e)[:200])), nts
                    cB = B.test_client()
                    counters["second_crashes"] = counters.get("second_crashes", 0) + 1
                i, j = order[n]
                got = send(cB, ids[i], hists[i]["reqs"][j])
                want = base[n]
                counters["post_crash_responses_compared"] = counters.get("post_crash_responses_compared", 0) + 1
                m = missing_equation(got)
                if m:
                    return dict(kind="equation-missing", crash_point=k, request_index=n, request=hists[i]["reqs"][j], missing=m, got=got), nts
                a = json.dumps(canon(got[1]), sort_keys=True).replace(ids[i], "<ID>")
                b = json.dumps(canon(want[1]), sort_keys=True).replace("<x>", "<ID>")
                if got[0] != want[0] or a != b.replace(idsU[i], "<ID>"):
                    return dict(kind="differs-after-restart", crash_point=k, second_crash_point=k2 if (k2 is not None and n >= k2) else None, request_index=n, instance=i, request=hists[i]["reqs"][j], got=got, uninterrupted=want,
                                after_rebegin=after_rebegin_with_settings(hists[i], j),
                                earlier_requests=[hists[i]["reqs"][jj] for (ii, jj) in order[:k] if ii == i], run=dict(start=hists[0]["start"], dt=hists[0]["dt"]),
                                scenario=hists[i].get("scen"), begin_settings=hists[i].get("begin")), nts
            for i in range(len(hists)):
                if influence(hists[i], k, order, i):
                    nts.append("%d|%d|%d" % (case["seed"], i, k))
        finally:
            if B is not None:
                srv.destroy_server(B)
            shutil.rmtree(tmp, True)
    return None, nts


def truncate_len(text, cls):
    n = len(text)
    if cls == "0":
        return 0
    if cls == "1":
        return 1
    if cls == "len-1":
        return n - 1
    i = text.find('"state"')
    if cls == "outer":
        return max(2, i - 3) if i > 0 else n // 10
    j = text.find('\\"', i + 12) if i >= 0 else -1
    return (j + 15) if j > 0 else n // 2


def run_torn(case, counters):
    from vlib import srv
    import shutil
    rng = random.Random(case["seed"])
    hists = [make_history(rng, False) for _ in range(case["ninst"])]
    for h in hists[1:]:
        h["start"], h["dt"] = hists[0]["start"], hists[0]["dt"]
    for h in hists:
        h["reqs"] = [r for r in h["reqs"] if r[0] != "results"][:4] or [("step", None)]
        h["reqs"] = [("step", {"settings": {}})] + h["reqs"]
    victim = rng.randrange(len(hists))
    for cls in TRUNC:
        tmp = tempfile.mkdtemp(prefix="c20t_", dir=".")
        A = open_server(tmp, hists[0], False)
        B = None
        try:
            ids = start_instances(A, hists)
            cA = A.test_client()
            for i, h in enumerate(hists):
                for r in h["reqs"][:-1]:
                    send(cA, ids[i], r)
            path = os.path.join(tmp, ids[victim] + ".json")
            if case["via"] == "failpoint":
                full = len(open(path).read())
                limit = truncate_len(open(path).read(), cls)
                with srv.OpenFailpoint(limit) as fp:
                    try:
                        send(cA, ids[victim], hists[victim]["reqs"][-1])      # the process dies inside this write
                    except Exception:
                        pass
                if not fp.fired:
                    return dict(kind="harness", msg="failpoint never fired")
            else:
                send(cA, ids[victim], hists[victim]["reqs"][-1])
                text = open(path).read()
                with open(path, "w") as f:
                    f.write(text[:truncate_len(text, cls)])
            counters["torn_write_cases"] = counters.get("torn_write_cases", 0) + 1
            expect = {}
            for i in range(len(hists)):
                if i != victim:
                    expect[i] = send(cA, ids[i], ("results", None))
            srv.destroy_server(A)
            try:
                B = open_server(tmp, hists[0], False)
            except Exception as e:
                return dict(kind="restart-failed-on-damaged-file", truncation=cls, via=case["via"], error="%s: %s" % (type(e).__name__, str(e)[:200]))
            counters["servers_started_on_damaged_dir"] = counters.get("servers_started_on_damaged_dir", 0) + 1
            cB = B.test_client()
            for i, want in expect.items():
                got = send(cB, ids[i], ("results", None))
                counters["post_crash_responses_compared"] = counters.get("post_crash_responses_compared", 0) + 1
                if got[0] != 200 or json.dumps(canon(got[1]), sort_keys=True) != json.dumps(canon(want[1]), sort_keys=True):
                    return dict(kind="other-instance-lost", truncation=cls, via=case["via"], instance=i, victim=victim, got=got, expected=want)
            # the damaged instance may be lost, but must be refused cleanly (no crash of the request, no other instance's data)
            got = send(cB, ids[victim], ("results", None))
            if got[0] == 200 and cls not in ("len-1",):
                pass   # restored from a still parseable prefix: not judged
            m = c_metrics(cB)
            if m is None:
                return dict(kind="metrics-failed-after-damaged-restart", truncation=cls)
        finally:
            if B is not None:
                srv.destroy_server(B)
            shutil.rmtree(tmp, True)
    return None


def c_metrics(c):
    r = c.get("/full-metrics")
    return r.get_data(as_text=True) if r.status_code == 200 else None


CHILD = r'''
import json, os, sys
sys.path[:0] = [%(repo)r, %(home)r]
os.chdir(%(cwd)r)
from checks import c20
from vlib import srv
hist = json.load(open(%(hist)r))
A = c20.open_server(%(tmp)r, hist, False)
ids = c20.start_instances(A, [hist])
c = A.test_client()
for r in hist["reqs"][:%(k)d]:
    c20.send(c, ids[0], tuple(r))
json.dump(ids, open(%(ids)r, "w"))
os._exit(137)     # no destructors, no flushing: the process is gone
'''


def run_killed_child(case, counters):
    from vlib import srv
    import shutil
    rng = random.Random(case["seed"])
    hist = make_history(rng, False)
    hist["reqs"] = [("step", {"settings": {}})] + hist["reqs"]
    if case.get("strip_earlier_sessions"):
        strip_earlier_sessions([hist])
    tmpU = tempfile.mkdtemp(prefix="c20ku_", dir=".")
    U = open_server(tmpU, hist, False)
    try:
        idsU = start_instances(U, [hist])
        base = [send(U.test_client(), idsU[0], r) for r in hist["reqs"]]
    finally:
        srv.destroy_server(U)
        shutil.rmtree(tmpU, True)
    k = rng.randint(1, len(hist["reqs"]) - 1)
    tmp = os.path.abspath(tempfile.mkdtemp(prefix="c20k_", dir="."))
    hp, ip = os.path.join(tmp, "..", "hist_%d.json" % case["seed"]), os.path.join(tmp, "..", "ids_%d.json" % case["seed"])
    json.dump(hist, open(hp, "w"))
    B = None
    try:
        code = CHILD % dict(repo=os.environ["VERIF_REPO"], home=os.environ["VERIF_HOME"], cwd=os.getcwd(), hist=hp, tmp=tmp, k=k, ids=ip)
        p = subprocess.run([sys.executable, "-W", "ignore", "-c", code], timeout=120, capture_output=True)
        if p.returncode != 137 or not os.path.exists(ip):
            return dict(kind="harness", msg="child did not die as planned", rc=p.returncode, err=p.stderr.decode()[-300:])
        ids = json.load(open(ip))
        counters["killed_children"] = counters.get("killed_children", 0) + 1
        B = open_server(tmp, hist, False)
        counters["crash_points"] = counters.get("crash_points", 0) + 1
        cB = B.test_client()
        for n in range(k, len(hist["reqs"])):
            got = send(cB, ids[0], hist["reqs"][n])
            counters["post_crash_responses_compared"] = counters.get("post_crash_responses_compared", 0) + 1
            a = json.dumps(canon(got[1]), sort_keys=True)
            b = json.dumps(canon(base[n][1]), sort_keys=True)
            if got[0] != base[n][0] or a != b:
                return dict(kind="differs-after-restart", via="killed child process", crash_point=k, request_index=n, request=hist["reqs"][n], got=got, uninterrupted=base[n],
                            earlier_requests=hist["reqs"][:k], after_rebegin=after_rebegin_with_settings(hist, n))
        return None
    finally:
        if B is not None:
            srv.destroy_server(B)
        shutil.rmtree(tmp, True)
        for f in (hp, ip):
            try:
                os.remove(f)
            except OSError:
                pass


def run_long(case, counters):
    """A long session (hundreds of steps), crash, then more steps: nothing may be missing from the step results."""
    from vlib import srv
    import shutil
    rng = random.Random(case["seed"])
    from vlib.srv import MG
    # variants: no settings at all / a setting early in the session (long gap between the last setting and the crash) / begin settings
    variant = case.get("variant", 0)
    early = [("step", {"settings": {MG: {"base": {"constants": {"rate": 0.3, "cap": 45.0}}}}}), ("step", {"settings": {}})] if variant == 1 else []
    begin = {MG: {"base": {"constants": {"rate": 0.4}}}} if variant == 2 else None
    hist = dict(start="0", dt="1", horizon=case["steps"] + 20, scen="base", begin=begin,
                reqs=early + [("steps", {"numberSteps": case["steps"], "settings": {}}), ("step", {"settings": {}}), ("step", None)])
    pre = len(early) + 1
    tmpU = tempfile.mkdtemp(prefix="c20lu_", dir=".")
    U = open_server(tmpU, hist, False)
    try:
        idsU = start_instances(U, [hist])
        base = [send(U.test_client(), idsU[0], r) for r in hist["reqs"]]
    finally:
        srv.destroy_server(U)
        shutil.rmtree(tmpU, True)
    tmp = tempfile.mkdtemp(prefix="c20l_", dir=".")
    A = open_server(tmp, hist, False)
    B = None
    try:
        ids = start_instances(A, [hist])
        for r_ in hist["reqs"][:pre]:
            send(A.test_client(), ids[0], r_)
        srv.destroy_server(A)
        B = open_server(tmp, hist, False)
        counters["crash_points"] = counters.get("crash_points", 0) + 1
        counters["long_sessions"] = counters.get("long_sessions", 0) + 1
        for n in (pre, pre + 1):
            got = send(B.test_client(), ids[0], hist["reqs"][n])
            counters["post_crash_responses_compared"] = counters.get("post_crash_responses_compared", 0) + 1
            m = missing_equation(got)
            if m:
                return dict(kind="equation-missing", after_steps=case["steps"], request_index=n, missing=m, got=str(got)[:200])
            if got[0] != base[n][0] or json.dumps(canon(got[1]), sort_keys=True) != json.dumps(canon(base[n][1]), sort_keys=True):
                return dict(kind="differs-after-restart", after_steps=case["steps"], request_index=n, got=str(got)[:200], uninterrupted=str(base[n])[:200], earlier_requests=[])
        return None
    finally:
        if B is not None:
            srv.destroy_server(B)
        shutil.rmtree(tmp, True)


def classify(w):
    k = w["kind"]
    if k == "differs-after-restart" and w.get("begin_settings"):
        return "differs-after-restart:begin-session-settings"
    if k == "differs-after-restart":
        earlier = w.get("earlier_requests", [])
        had_settings = any(isinstance(r[1], dict) and r[1].get("settings") for r in earlier)
        return "differs-after-restart:earlier-step-settings" if had_settings else "differs-after-restart:no-earlier-settings"
    return k


def run_case(case):
    counters = {}
    nts = []
    try:
        if case["kind"] == "crash":
            w, nts = run_crash(case, counters)
        elif case["kind"] == "torn":
            w = run_torn(case, counters)
        elif case["kind"] == "long":
            w = run_long(case, counters)
        else:
            w = run_killed_child(case, counters)
    except Exception as e:
        import traceback
        w = dict(kind="exception:" + type(e).__name__, error=traceback.format_exc()[-700:])
    if w is not None and w.get("kind") == "harness":
        return dict(verdict="inconclusive", nt=nts, counters=counters, witness=dict(first=w, case=case))
    if w is not None:
        mech = classify(w)
        if case["kind"] in ("crash", "killed-child") and w["kind"] == "differs-after-restart" and w.get("after_rebegin"):
            # known finding candidate: the difference appears in a re-begun session whose predecessor changed scenario settings.
            # Control: the same history and crash points with the predecessor's settings removed must hold; otherwise it is something else.
            try:
                if case["kind"] == "crash":
                    cw, _ = run_crash(dict(case, strip_earlier_sessions=True), {})
                else:
                    cw = run_killed_child(dict(case, strip_earlier_sessions=True), {})
            except Exception as e:
                cw = dict(kind="control-exception", error=str(e)[:200])
            counters["leak_controls_run"] = 1
            if cw is None:
                mech = "previous-session-settings-not-restored"
            else:
                w["control_also_fails"] = cw.get("kind")
        return dict(verdict="violated", nt=nts, counters=counters, mech=mech, witness=dict(first=w, case=case))
    return dict(verdict="held", nt=nts, counters=counters, sample=dict(case=case))
