"""C18 - step-advancing requests on one instance never interleave.

Two or three concurrent stepping requests (each in its own thread through its
own Flask test client) run under the controlled line scheduler; yield points
are the source lines of the request handlers / bptk session methods that touch
the shared session (selected by source-text pattern from the working tree, so
an edited handler is re-scanned).  An offline checker judges the response
history: consecutive steps per response, no simulation time twice, session
clock = start + dt * steps returned, no overlap of a successful multi-step
request with any other step, and the instance usable (not 'locked') afterwards."""
import itertools
import json
import linecache
import re
import tempfile
import threading

ID = "C18"
LEVEL = "exploration"
TECHNIQUE = "response-history checker under a controlled line-level scheduler (systematic schedules up to a preemption bound)"
RULE = ("(enumeration modes: all1 = one preemption at every yield point; lock2 = two preemptions, both at lock-related lines or at a handler's run_step call; all2 = two preemptions anywhere; lock3 = three preemptions at lock-related lines, thorough tier, three pairs) request kinds {run-step, run-steps(2), run-steps(3), stream-steps, stream-steps aborted by the client after the first chunk, "
        "run-steps whose settings make a step raise, stream-steps closed before the first chunk}; all 28 unordered pairs in modes all1+lock2 (thorough: also all2) and 4 triples (thorough: all 84) in mode lock2; "
        "real locks of the instance are replaced by scheduler-aware locks; fresh instance and session per schedule. Plus, without scheduler, one client thread that reads a stream-steps response (with / without a body) lazily and sends run-step / run-steps / stream-steps (with and without a body) / an aborted stream between two of its chunks: all of them must be refused, the stream stays consecutive - also when a whole-server /save-state (file adapter) is served between two chunks; and after a stream-steps request that the handler rejects (body without settings, unparseable body) later stepping requests are admitted. "
        "distinct_nontrivial = distinct (request-kind combination, schedule) in which the second request observed the session between the "
        "first request's lock test and its last step (i.e. the check/lock window was entered).")
ASSUMPTIONS = ["preemption at line boundaries of source-selected yield points only (no preemption inside a line)", "<=3 concurrent requests, Flask test client instead of a socket server",
               "a refused request (instance locked) is a correct outcome; the property constrains successful responses and the final state"]
REQUIRED = {"saves_during_stream": 5, "rejected_streams": 5, "same_thread_sequences": 30, "schedules": 150, "schedules_with_preemption": 100, "yield_points_hit": 3000, "window_entered": 20}
BUDGET_S = {"quick": 170, "thorough": 2400}

KINDS = ["step", "steps2", "steps3", "stream", "abort", "error", "abort0"]
PATTERN = re.compile(r"session_state|\.lock\(|\.unlock\(|is_locked\(|run_step\(|try_lock\(|release\(|call_on_close|_lock_guard|\.load_instance\(|\.reconstruct_instance\(")
START, STOP, DT = 1.0, 6.0, 1.0


def gen_cases(tier, seed):
    pairs = list(itertools.combinations_with_replacement(range(len(KINDS)), 2))
    cases = []
    K = 4 if tier == "quick" else 8
    for p in pairs:
        for r in range(K):
            # mode "all1": every yield point, one preemption; mode "lock2": two preemptions, both at lock-related lines
            cases.append(dict(kinds=list(p), stride=r, K=K, mode="all1", seed=seed))
            cases.append(dict(kinds=list(p), stride=r, K=K, mode="lock2", seed=seed))
            if tier == "thorough":
                cases.append(dict(kinds=list(p), stride=r, K=K, mode="all2", seed=seed))
    k = {n: i for i, n in enumerate(KINDS)}
    triples = [(k["abort"], k["step"], k["steps3"]), (k["stream"], k["step"], k["steps2"]), (k["abort0"], k["steps2"], k["step"]), (k["steps2"], k["steps2"], k["step"])]
    if tier == "thorough":
        triples = list(itertools.combinations_with_replacement(range(len(KINDS)), 3)) + triples
    # one client thread: a stream-steps response is read lazily and other step requests are sent between two of its chunks
    others = ["step", "step-nobody", "steps2", "stream", "stream-nobody", "abort"]
    for a in ("stream", "stream-nobody"):
        for k_read in (1, 2, 4):
            for b in others:
                cases.append(dict(mode="samethread", first=a, read=k_read, between=[b], seed=seed))
            for b1, b2 in (("step", "steps2"), ("stream-nobody", "step"), ("steps2", "stream"), ("step-nobody", "step-nobody"), ("abort", "step")):
                cases.append(dict(mode="samethread", first=a, read=k_read, between=[b1, b2], seed=seed))
    # a whole-server /save-state (external state adapter) between two chunks of a stream, followed by step requests
    for a in ("stream", "stream-nobody"):
        for k_read in (1, 3):
            for b in (["save-state", "step"], ["save-state", "steps2"], ["save-state", "stream-nobody"], ["save-state"]):
                cases.append(dict(mode="samethread", first=a, read=k_read, between=list(b), adapter=True, seed=seed))
    # requests that advance nothing (a zero / negative number of steps, begin-session, end-session) between two chunks of a stream, followed by stepping requests
    for a in ("stream", "stream-nobody"):
        for k_read in (1, 3):
            for nb in ("steps0", "steps-neg", "begin-session", "end-session"):
                for after in (["step"], ["steps2"], ["stream-nobody", "step"]):
                    cases.append(dict(mode="samethread", first=a, read=k_read, between=[nb] + list(after), adapter=(k_read == 3), seed=seed))
    # the client of a stream stalls for an hour between two chunks; stepping requests that arrive then are still refused
    for a in ("stream", "stream-nobody"):
        for k_read in (1, 3):
            for after in (["step"], ["steps2"], ["stream-nobody", "step"]):
                cases.append(dict(mode="samethread", first=a, read=k_read, between=["pause-1h"] + list(after), seed=seed))
    # a stream-steps request that is rejected (body without settings / unparseable body): the instance stays usable
    for bad in ("stream-bad-nosettings", "stream-bad-json"):
        for after in (["step"], ["steps2"], ["stream"], ["step-nobody", "stream-nobody"]):
            cases.append(dict(mode="samethread", first=None, read=0, between=["step", bad] + list(after), seed=seed))
            cases.append(dict(mode="samethread", first=None, read=0, between=[bad] + list(after), adapter=True, seed=seed))
    # the instance lives only in its state file (as after a time-out): the concurrent requests are the first ones to bring it back
    for p_ in ((k["step"], k["step"]), (k["steps2"], k["step"]), (k["stream"], k["step"])):
        for r in range(4):
            cases.append(dict(kinds=list(p_), stride=r, K=4, mode="all1", restore=True, seed=seed))
    if tier == "quick":
        # three preemptions at lock-related lines with the first among the first eight alternatives (first use of the instance's lock)
        for r in range(8):
            cases.append(dict(kinds=[k["steps2"], k["step"]], stride=r, K=8, mode="lock3", first_max=8, seed=seed))
    if tier == "thorough":
        # three preemptions, all at lock-related lines, for three pairs (a window that only opens on the FIRST use of a lazily created guard needs them)
        for p3 in ((k["step"], k["step"]), (k["steps2"], k["step"]), (k["stream"], k["step"])):
            for r in range(32):
                cases.append(dict(kinds=list(p3), stride=r, K=32, mode="lock3", seed=seed))
    K3 = 16
    for t in triples:
        for r in range(K3):
            cases.append(dict(kinds=list(t), stride=r, K=K3, mode="lock2", seed=seed))
    return cases


def EXHAUSTIVE(tier):
    return False


_sel = {}
# lock-related lines plus the handlers' calls of run_step (one per step of a multi-step request)
LOCKPAT = re.compile(r"\.lock\(|\.unlock\(|is_locked\(|try_lock\(|release\(|call_on_close|_lock_guard|\[\"lock\"\]|\.run_step\(")


def worker_init():
    """Select code objects and yield lines from the working tree by source pattern."""
    import inspect
    import BPTK_Py.server.bptkServer as S
    from BPTK_Py.bptk import bptk as B
    from vlib.linesched import all_code_objects
    funcs = []
    for cls in (S.BptkServer, S.InstanceManager, B):
        for name, f in vars(cls).items():
            if callable(f):
                funcs.append(f)
    codes, lines, locklines = [], set(), set()
    for c in all_code_objects(*funcs):
        hit = False
        for (_, _, ln) in c.co_lines():
            src = linecache.getline(c.co_filename, ln) if ln else ""
            if ln and PATTERN.search(src or ""):
                lines.add((c.co_filename, ln))
                hit = True
                if LOCKPAT.search(src):
                    locklines.add((c.co_name, ln))
        if hit:
            codes.append(c)
    _sel["codes"], _sel["lines"], _sel["locklines"] = codes, lines, locklines


def do_request(client, iid, kind, out, idx):
    from vlib.srv import MG, SC
    try:
        if kind == "step":
            r = client.post("/%s/run-step" % iid, json={"settings": {}})
            out[idx] = (kind, r.status_code, r.get_data(as_text=True))
        elif kind in ("steps2", "steps3"):
            r = client.post("/%s/run-steps" % iid, json={"numberSteps": int(kind[-1]), "settings": {}})
            out[idx] = (kind, r.status_code, r.get_data(as_text=True))
        elif kind == "error":
            r = client.post("/%s/run-steps" % iid, json={"numberSteps": 2, "settings": {MG: 5}})
            out[idx] = (kind, r.status_code, r.get_data(as_text=True))
        elif kind == "stream":
            r = client.post("/%s/stream-steps" % iid, json={"settings": {}})
            out[idx] = (kind, r.status_code, r.get_data(as_text=True))
        elif kind == "abort0":
            # plain WSGI call: the server closes the response iterable without ever iterating it
            # (the client went away before the first chunk)
            from werkzeug.test import EnvironBuilder
            env = EnvironBuilder(path="/%s/stream-steps" % iid, method="POST", json={"settings": {}}).get_environ()
            status = []
            rv = client.application(env, lambda st, headers, exc_info=None: status.append(st))
            if hasattr(rv, "close"):
                rv.close()
            out[idx] = (kind, int(status[0].split()[0]) if status else 599, "<aborted>")
        elif kind == "abort":
            r = client.post("/%s/stream-steps" % iid, json={"settings": {}}, buffered=False)
            chunks = []
            it = iter(r.response)
            try:
                for _ in range(3):      # "[", first step, then the client goes away
                    chunks.append(next(it))
            except StopIteration:
                pass
            r.close()
            out[idx] = (kind, r.status_code, b"".join(c if isinstance(c, bytes) else c.encode() for c in chunks).decode() + "<aborted>")
    except Exception as e:
        out[idx] = (kind, 599, repr(e)[:200])


def one_schedule(kinds, schedule, restore=False):
    from vlib import srv
    from vlib.linesched import LineScheduler
    from BPTK_Py.bptk import bptk as B
    tmp = tempfile.mkdtemp(prefix="c18r_", dir=".") if restore else None
    app = srv.make_server(srv.bptk_factory(start=START, stop=STOP, dt=DT), state_dir=tmp)
    c0 = app.test_client()
    iid = json.loads(c0.post("/start-instance", json={}).get_data(as_text=True))["instance_uuid"]
    c0.post("/%s/begin-session" % iid, json={"scenario_managers": [srv.MG], "scenarios": [srv.SC], "equations": ["stock", "rate"]})
    inst = app._instance_manager._instances[iid]["instance"]
    if restore:
        # the instance lives only in its state file (as after a time-out): the concurrent requests are the first ones to bring it back
        app._instance_manager._delete_instance(iid)
        inst.destroy()
    # monitor: log of run_step executions (thread index, clock before, clock after) with a global sequence number
    calls = []
    orig = B.run_step
    tl = threading.local()

    def run_step(self, *a, **k):
        before = self.session_state["step"] if self.session_state else None
        ok = False
        try:
            r = orig(self, *a, **k)
            ok = not (isinstance(r, dict) and "msg" in r)     # "Stoptime reached" is not a step
            return r
        finally:
            calls.append((getattr(tl, "idx", -1), before, self.session_state["step"] if self.session_state else None, ok))
    B.run_step = run_step
    out = {}
    sched = LineScheduler(_sel["codes"], expected=len(kinds), schedule=schedule, line_filter=lambda code, line: (code.co_filename, line) in _sel["lines"])
    from vlib.linesched import model_locks
    modelled = model_locks(sched, inst, app, app._instance_manager)
    import sys as _sys
    import BPTK_Py.server.bptkServer as _smod
    _bmod = _sys.modules["BPTK_Py.bptk"]          # (the package attribute BPTK_Py.bptk is the class, not the module)
    from vlib.linesched import lock_factories
    try:
        with lock_factories(sched, _bmod, _smod), sched:
            threads = []
            for i, k in enumerate(kinds):
                def target(i=i, k=k):
                    tl.idx = i
                    do_request(app.test_client(), iid, KINDS[k], out, i)
                t = threading.Thread(target=target)
                threads.append(t)
                t.start()
            for t in threads:
                t.join(40)
        follow = c0.post("/%s/run-step" % iid, json={"settings": {}})
        follow = (follow.status_code, follow.get_data(as_text=True)[:200])
        if restore:
            live = app._instance_manager._instances.get(iid)
            inst = live["instance"] if live else inst
        final_clock = inst.session_state["step"] if inst.session_state else None
    finally:
        B.run_step = orig
        srv.destroy_server(app)
        if tmp:
            import shutil
            shutil.rmtree(tmp, True)
    return out, calls, follow, final_clock, sched


def parse_steps(kind, status, body):
    """-> list of times of the steps a successful response contains (None when refused / error)."""
    if status != 200:
        return None
    if "instace is locked" in body or '"error"' in body[:30]:
        return None
    txt = body.replace("<aborted>", "")
    if kind == "abort0":
        return []
    if kind in ("stream", "abort"):
        if kind == "abort" and not txt.rstrip().endswith("]"):
            txt = txt.rstrip().rstrip(",") + "]"
    try:
        js = json.loads(txt)
    except Exception:
        return "unparseable"
    items = js if isinstance(js, list) else [js]
    times = []
    for it in items:
        if not isinstance(it, dict) or "msg" in it or "error" in it:
            continue
        try:
            ts = list(it["smSrv"]["base"]["stock"].keys())
        except Exception:
            continue
        times += [float(t) for t in ts]
    return times


def judge(kinds, out, calls, follow, final_clock):
    produced = []
    per_req = {}
    for i, k in enumerate(kinds):
        if i not in out:
            return dict(kind="request-never-returned", request=KINDS[k])
        kind, status, body = out[i]
        times = parse_steps(kind, status, body)
        per_req[i] = times
        if times == "unparseable":
            return dict(kind="unparseable-response", request=kind, body=body[:200])
        if times:
            for a, b in zip(times, times[1:]):
                if abs((b - a) - DT) > 1e-9:
                    return dict(kind="non-consecutive-steps", request=kind, times=times)
            produced += times
    if len(set(produced)) != len(produced):
        return dict(kind="time-produced-twice", times=sorted(produced), responses={KINDS[kinds[i]]: per_req[i] for i in per_req})
    # steps executed on the server (incl. those of an aborted / failed request whose response never showed them)
    executed = [c for c in calls if c[1] is not None and c[2] is not None and c[2] != c[1]]
    if final_clock is not None:
        # the follow-up step is included in final_clock
        n_adv = len([c for c in calls if c[1] is not None and c[2] != c[1]])     # the follow-up step is in the log as thread -1
        if abs(final_clock - (START + DT * n_adv)) > 1e-9:
            return dict(kind="clock-mismatch", final_clock=final_clock, steps_executed=n_adv, calls=calls)
        ex_times = [c[1] for c in executed]
        if len(set(ex_times)) != len(ex_times):
            return dict(kind="time-produced-twice", executed_from_clock=ex_times, calls=calls)
    # overlap: a successful multi-step request must not have foreign steps between its first and last step
    for i, k in enumerate(kinds):
        if KINDS[k] in ("steps2", "steps3", "stream") and per_req.get(i):
            pos = [n for n, c in enumerate(calls) if c[0] == i]
            if pos:
                foreign = [calls[n] for n in range(pos[0], pos[-1] + 1) if calls[n][0] != i and calls[n][3]]
                if foreign:
                    return dict(kind="interleaved-with-multi-step", request=KINDS[k], foreign=foreign, calls=calls)
    if follow[0] != 200 or "locked" in follow[1]:
        if "locked" in follow[1]:
            return dict(kind="left-locked", follow=follow, after=[KINDS[k] for k in kinds], statuses={KINDS[kinds[i]]: out[i][1] for i in out})
    return None


def run_samethread(case, counters):
    """No scheduler: one thread opens a stream-steps response, reads `read` chunks, sends the `between` requests, reads the rest."""
    from vlib import srv
    from BPTK_Py.bptk import bptk as B
    import tempfile
    tmp = tempfile.mkdtemp(prefix="c18_", dir=".") if case.get("adapter") else None
    app = srv.make_server(srv.bptk_factory(start=START, stop=STOP, dt=DT), state_dir=tmp)
    c = app.test_client()
    iid = json.loads(c.post("/start-instance", json={}).get_data(as_text=True))["instance_uuid"]
    c.post("/%s/begin-session" % iid, json={"scenario_managers": [srv.MG], "scenarios": [srv.SC], "equations": ["stock", "rate"]})
    inst = app._instance_manager._instances[iid]["instance"]
    calls, cur = [], [0]
    orig = B.run_step

    def run_step(self, *a, **k):
        before = self.session_state["step"] if self.session_state else None
        ok = False
        try:
            r = orig(self, *a, **k)
            ok = not (isinstance(r, dict) and "msg" in r)
            return r
        finally:
            calls.append((cur[0], before, self.session_state["step"] if self.session_state else None, ok))
    B.run_step = run_step
    out = {}
    stepping = [b for b in case["between"] if b not in ("pause-1h", "save-state", "begin-session", "end-session", "steps0", "steps-neg") and not b.startswith("stream-bad")]
    # every clock of the `time` module is skewed by _skew[0] seconds while this sequence runs (threading keeps its own reference, taken at import)
    import time as _time
    _skew = [0.0]
    _orig_clocks = {n: getattr(_time, n) for n in ("monotonic", "time", "perf_counter")}
    for _n, _f in _orig_clocks.items():
        setattr(_time, _n, (lambda f: (lambda: f() + _skew[0]))(_f))
    kinds = (["stream"] if case["first"] else []) + [("step" if b.startswith("step-") or b == "step" else "stream" if b.startswith("stream") else b) for b in stepping]
    base = 1 if case["first"] else 0
    rejected_ok = True
    try:
        cur[0] = 0
        r, chunks, it = None, [], iter(())
        if case["first"]:
            kw = {"json": {"settings": {}}} if case["first"] == "stream" else {}
            r = c.post("/%s/stream-steps" % iid, buffered=False, **kw)
            it = iter(r.response)
            try:
                for _ in range(1 + 2 * case["read"] - 1):       # "[", step, ",", step, ...
                    chunks.append(next(it))
            except StopIteration:
                pass
        j = base - 1
        for b in case["between"]:
            if b == "save-state":
                rs = c.get("/save-state")
                rs.get_data()
                counters["saves_during_stream"] = counters.get("saves_during_stream", 0) + 1
                continue
            if b == "pause-1h":
                # the client stalls: an hour passes on every clock the process can read, nothing else happens
                _skew[0] += 3600.0
                counters["long_client_pauses"] = counters.get("long_client_pauses", 0) + 1
                continue
            if b in ("begin-session", "end-session", "steps0", "steps-neg"):
                # requests that advance nothing themselves: whatever they answer, they must not let a later stepping request in while the
                # stream is unfinished, and must not disturb the stream
                if b == "begin-session":
                    rb = c.post("/%s/begin-session" % iid, json={"scenario_managers": [srv.MG], "scenarios": [srv.SC], "equations": ["stock", "rate"]})
                elif b == "end-session":
                    rb = c.post("/%s/end-session" % iid)
                else:
                    rb = c.post("/%s/run-steps" % iid, json={"numberSteps": 0 if b == "steps0" else -1, "settings": {srv.MG: {srv.SC: {"constants": {"rate": 0.5}}}}})
                rb.get_data()
                counters["non_stepping_requests_during_stream"] = counters.get("non_stepping_requests_during_stream", 0) + 1
                continue
            if b.startswith("stream-bad"):
                # a request the handler rejects after (or before) it has looked at the lock
                if b == "stream-bad-nosettings":
                    rb = c.post("/%s/stream-steps" % iid, json={"flatResults": False})
                else:
                    rb = c.post("/%s/stream-steps" % iid, data="{not json", content_type="application/json")
                rb.get_data()
                rejected_ok = rejected_ok and rb.status_code >= 400
                counters["rejected_streams"] = counters.get("rejected_streams", 0) + 1
                continue
            j += 1
            cur[0] = j
            if b == "step":
                rb = c.post("/%s/run-step" % iid, json={"settings": {}})
            elif b == "step-nobody":
                rb = c.post("/%s/run-step" % iid)
            elif b == "steps2":
                rb = c.post("/%s/run-steps" % iid, json={"numberSteps": 2, "settings": {}})
            elif b == "stream":
                rb = c.post("/%s/stream-steps" % iid, json={"settings": {}})
            elif b == "stream-nobody":
                rb = c.post("/%s/stream-steps" % iid)
            else:   # abort: a second stream, one step read, then closed
                rb = c.post("/%s/stream-steps" % iid, json={"settings": {}}, buffered=False)
                part, it2 = [], iter(rb.response)
                try:
                    for _ in range(3):
                        part.append(next(it2))
                except StopIteration:
                    pass
                rb.close()
                out[j] = ("abort", rb.status_code, b"".join(x if isinstance(x, bytes) else x.encode() for x in part).decode() + "<aborted>")
                continue
            out[j] = (kinds[j], rb.status_code, rb.get_data(as_text=True))
        cur[0] = 0
        if case["first"]:
            try:
                for ch in it:
                    chunks.append(ch)
            except Exception as e:
                chunks.append(("<stream failed: %r>" % e).encode())
            r.close()
            out[0] = ("stream", r.status_code, b"".join(x if isinstance(x, bytes) else x.encode() for x in chunks).decode())
        cur[0] = -1
        follow = c.post("/%s/run-step" % iid, json={"settings": {}})
        follow = (follow.status_code, follow.get_data(as_text=True)[:200])
        final_clock = inst.session_state["step"] if inst.session_state else None
    finally:
        for _n, _f in _orig_clocks.items():
            setattr(_time, _n, _f)
        B.run_step = orig
        srv.destroy_server(app)
        if tmp:
            import shutil
            shutil.rmtree(tmp, True)
    counters["same_thread_sequences"] = counters.get("same_thread_sequences", 0) + 1
    kidx = [KINDS.index(k) for k in kinds]
    w = judge(kidx, out, calls, follow, final_clock)
    if w is None and case["first"] and out[0][1] == 200:
        # while the first stream is unfinished every other stepping request must have been refused
        for j in range(1, len(kinds)):
            t = parse_steps(out[j][0], out[j][1], out[j][2])
            if t:
                w = dict(kind="admitted-while-stream-in-progress", request=stepping[j - 1], times=t)
                break
    if w is None and not case["first"]:
        # nothing is in progress: a rejected request must not keep later stepping requests out
        for j in range(len(kinds)):
            if out[j][1] != 200 or "locked" in str(out[j][2])[:80]:
                w = dict(kind="left-locked", after_rejected_request=True, request=stepping[j], status=out[j][1], body=str(out[j][2])[:120])
                break
    if w is not None:
        w.update(case=case, responses={str(i): (out[i][0], out[i][1], out[i][2][:200]) for i in out}, follow=follow, calls=calls)
    return w


def run_case(case):
    from vlib.linesched import alternatives
    import random
    counters = {}
    if case.get("mode") == "samethread":
        w = run_samethread(case, counters)
        if w is not None:
            return dict(verdict="violated", counters=counters, mech=w["kind"] + ":same-thread", witness=w)
        return dict(verdict="held", counters=counters, sample=dict(case=case))
    kinds = case["kinds"]
    nts = []
    rng = random.Random(hash((tuple(kinds), case["stride"], case["seed"])) & 0xffffff)

    def attempt(schedule):
        out, calls, follow, final_clock, sched = one_schedule(kinds, schedule, restore=bool(case.get("restore")))
        counters["schedules"] = counters.get("schedules", 0) + 1
        counters["yield_points_hit"] = counters.get("yield_points_hit", 0) + sched.decisions
        if sched.preemptions_applied:
            counters["schedules_with_preemption"] = counters.get("schedules_with_preemption", 0) + 1
        if sched.stuck:
            return "stuck", dict(kind="stuck", why=sched.stuck, schedule=schedule), sched
        # window: some thread executed a step while another thread had tested the lock but not finished
        threads_in_calls = [c[0] for c in calls if c[0] >= 0]
        switches = sum(1 for j in range(len(threads_in_calls) - 1) if threads_in_calls[j] != threads_in_calls[j + 1])
        if sched.preemptions_applied and (switches >= 2 or any("locked" in out[i][2] for i in out if isinstance(out[i][2], str))):
            counters["window_entered"] = counters.get("window_entered", 0) + 1
            nts.append("%s|%r" % ("+".join(KINDS[k] for k in kinds), schedule))
        w = judge(kinds, out, calls, follow, final_clock)
        if w is not None:
            w.update(schedule=schedule, requests=[KINDS[k] for k in kinds], responses={str(i): (out[i][0], out[i][1], out[i][2][:160]) for i in out}, follow=follow)
            return "violated", w, sched
        return "held", None, sched
    st, w, base = attempt([])
    if st == "held":
        only = _sel["locklines"] if case["mode"] in ("lock2", "lock3") else None
        alts = alternatives(base.trace, only)
        if case.get("first_max"):
            alts = alts[:case["first_max"]]
        mine = [a for i, a in enumerate(alts) if i % case["K"] == case["stride"]]
        for (d, t) in mine:
            st, w, s1 = attempt([(d, t)])
            if st != "held":
                break
            if case["mode"] in ("lock2", "all2", "lock3"):
                for (d2, t2) in alternatives(s1.trace, only):
                    if d2 <= d:
                        continue
                    st, w, s2 = attempt([(d, t), (d2, t2)])
                    if st != "held":
                        break
                    if case["mode"] == "lock3":
                        for (d3, t3) in alternatives(s2.trace, only):
                            if d3 <= d2:
                                continue
                            st, w, _ = attempt([(d, t), (d2, t2), (d3, t3)])
                            if st != "held":
                                break
                        if st != "held":
                            break
            if st != "held":
                break
    if st == "violated":
        return dict(verdict="violated", nt=nts[:60], counters=counters, mech=w["kind"] + ":" + "+".join(sorted(set(w["requests"]))) if w["kind"] == "left-locked" else w["kind"], witness=w)
    if st == "stuck":
        return dict(verdict="inconclusive", counters=counters, witness=w)
    return dict(verdict="held", nt=nts[:60], counters=counters, sample=dict(case=case))
