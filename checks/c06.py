"""C06 - scenarios are isolated from each other and from their base model.

Oracle: after EVERY operation of a history, every scenario (of two managers
registered from the same model object) and the base model are compared with a
the harness's own Euler interpreter (vlib.refsd) evaluated with exactly that
scenario's current settings (the harness keeps the record of settings) - an
oracle that shares no state with the library (a first version used a freshly
built Model, which would share class-level state).  A quiescent-point walk reports containers shared between scenarios
(diagnostic only)."""
import copy
import itertools
import random

ID = "C06"
LEVEL = "exploration"
TECHNIQUE = "differential against an independent Euler interpreter (the scenario's current settings) after every operation of a multi-scenario history; aliasing walk as diagnostic"
RULE = ("base model: 2 named lookups, 3 constants, arrayed converter, 2 stocks; 2 managers x 3 scenarios registered from ONE model object; "
        "operations: register scenario (constants / only-some points), batch run (equation subsets), session with begin-settings, "
        "steps with constant / points settings, session left open, cache reset, REST /run with settings (constants, points, runspecs), "
        "evaluate base elements; ALL histories of length<=2 (quick) / <=3 (thorough) over a 14-letter alphabet + seeded random histories "
        "of length 4-14. distinct_nontrivial = distinct histories containing a points/constants change of one scenario followed by a "
        "comparison of another scenario that uses the same lookup/constant without overriding it.")
ASSUMPTIONS = ["a scenario that received settings with an individual STEP is not compared with its own fresh build afterwards (whether step settings outlive the session is not stated); all OTHER scenarios and the base model still are",
               "settings given at registration, begin_session and REST /run are the scenario's settings"]
REQUIRED = {"histories": 100, "scenario_comparisons": 2000, "base_comparisons": 200, "rest_requests": 20}
BUDGET_S = {"quick": 100, "thorough": 1500}

P1 = [[0.0, 1.0], [2.0, 3.0], [5.0, 0.5]]
P2 = [[0.0, 0.0], [10.0, 5.0], [40.0, 6.0]]
BP2 = [[0.0, 0.5], [10.0, 4.0], [40.0, 7.0]]      # base_points of manager smB: inherited by every scenario of smB that does not override p2
BASE = dict(constants=dict(c1=2.0, c2=1.0, c3=0.25), points=dict(p1=P1, p2=P2), run=(0.0, 5.0, 1.0))
EQS = ["s1", "s2", "f1", "b1", "c1", "c2", "c3", "total"]
ALPHA = ["reg_const", "reg_pts", "run_A0", "sess_A0_const", "sess_B1_step_pts", "sess_A1_step_const", "reset_A0",
         "rest_B0", "eval_base", "sess_open_A2", "rest_A0_runspecs", "sess_A01_step_first", "reg_again", "rest_A1_start_later_then_zero", "sess_A1_const"]


def build(constants, points, run):
    from BPTK_Py import Model
    from BPTK_Py import sd_functions as sd
    m = Model(starttime=run[0], stoptime=run[1], dt=run[2], name="iso")
    for n, pts in points.items():
        m.points[n] = copy.deepcopy(pts)
    c = {n: m.constant(n) for n in ("c1", "c2", "c3")}
    for n in c:
        c[n].equation = constants[n]
    vec = m.converter("vec")
    vec.setup_vector(2, [1.0, 0.5])
    total = m.converter("total")
    total.equation = vec.arr_sum()
    s1, s2, f1, b1 = m.stock("s1"), m.stock("s2"), m.flow("f1"), m.biflow("b1")
    s1.initial_value = 1.0
    s2.initial_value = 4.0
    f1.equation = c["c1"] * sd.lookup(sd.time(), "p1") + sd.pulse(m, 3.0, 2.0, 2.0)       # (a pulse: its height is volume / dt of the model that RUNS it)
    b1.equation = c["c2"] - s2 * c["c3"] + sd.lookup(s1, "p2") + total
    s1.equation = f1
    s2.equation = b1
    return m


def grid(run):
    n = int(round((run[1] - run[0]) / run[2]))
    return [run[0] + i * run[2] for i in range(n + 1)]


def expected(settings):
    """The scenario's values by the harness's own Euler interpreter (vlib.refsd): independent of anything the library keeps in
    module- or class-level state (a freshly built Model in this process would share such state with the models under test)."""
    from vlib import refsd
    consts = dict(BASE["constants"], **settings.get("constants", {}))
    pts = dict(BASE["points"], **settings.get("points", {}))
    rs = settings.get("runspecs", {})
    run = (rs.get("starttime", BASE["run"][0]), rs.get("stoptime", BASE["run"][1]), rs.get("dt", BASE["run"][2]))
    spec = dict(run=dict(start=repr(float(run[0])), stop=repr(float(run[1])), dt=repr(float(run[2]))), points={k: [list(p) for p in v] for k, v in pts.items()},
                elements=[dict(name=n, kind="constant", value=float(consts[n])) for n in ("c1", "c2", "c3")] + [
                    dict(name="total", kind="constant", value=1.5),          # the sum of the arrayed converter vec = [1.0, 0.5]
                    dict(name="f1", kind="flow", eq=["bin", "+", ["bin", "*", ["ref", "c1"], ["lookup", ["time"], "p1"]], ["pulse", 3.0, 2.0, 2.0]]),
                    dict(name="b1", kind="biflow", eq=["bin", "+", ["bin", "+", ["bin", "-", ["ref", "c2"], ["bin", "*", ["ref", "s2"], ["ref", "c3"]]], ["lookup", ["ref", "s1"], "p2"]], ["ref", "total"]]),
                    dict(name="s1", kind="stock", init=1.0, eq=["ref", "f1"]), dict(name="s2", kind="stock", init=4.0, eq=["ref", "b1"])])
    table = refsd.Ref(spec).table(conditioning=False)
    g = grid(run)
    return {e: {t: float(table[e][k]) for k, t in enumerate(g)} for e in EQS}


def gen_cases(tier, seed):
    L = 2 if tier == "quick" else 3
    cases = []
    for first in range(len(ALPHA)):
        if L == 3:
            for second in range(len(ALPHA)):
                cases.append(dict(kind="enum", prefix=[first, second], L=L))
        else:
            cases.append(dict(kind="enum", prefix=[first], L=L))
    rng = random.Random(606 + seed)
    for i in range(40 if tier == "quick" else 1200):
        cases.append(dict(kind="random", seq=[rng.randrange(len(ALPHA)) for _ in range(rng.randint(4, 14))], vseed=rng.randrange(10 ** 6)))
    return cases


def EXHAUSTIVE(tier):
    return False


class World:
    def __init__(self, counters, vseed=0):
        from BPTK_Py import bptk
        from BPTK_Py.server import BptkServer
        self.counters = counters
        self.rng = random.Random(vseed)
        self.base = build(BASE["constants"], BASE["points"], BASE["run"])
        self.b = bptk()
        self.settings = {}   # (mgr, scen) -> settings record
        self.tainted = set()
        self.touched = []    # log of (kind, scope) for the non-triviality rule
        # ONE scenario dictionary object is handed to both managers (a caller re-using its definition): they must not end up sharing it
        # ... and inside one registration two scenario names (s1, s3) are given the SAME settings object
        one_shared = {"constants": {"c1": 3.0}}
        shared_scen = {"s0": {}, "s1": one_shared, "s2": {"points": {"p2": [[0.0, 1.0], [20.0, 2.0]]}}, "s3": one_shared}
        for mgr, bc in (("smA", {}), ("smB", {"c3": 0.5})):
            one = {"constants": {"c1": 3.0}}
            scen = {"s0": {}, "s1": one, "s2": {"points": {"p2": [[0.0, 1.0], [20.0, 2.0]]}}, "s3": one}
            spec = {"model": self.base, "scenarios": shared_scen if vseed % 2 == 0 else copy.deepcopy(scen)}
            if bc:
                spec["base_constants"] = dict(bc)
                spec["base_points"] = {"p2": copy.deepcopy(BP2)}
            self.b.register_scenario_manager({mgr: spec})
            for sn, st in scen.items():
                rec = copy.deepcopy(st)
                if bc:
                    rec.setdefault("constants", {})
                    for k, v in bc.items():
                        rec["constants"].setdefault(k, v)
                    rec.setdefault("points", {}).setdefault("p2", copy.deepcopy(BP2))
                self.settings[(mgr, sn)] = rec
        # (the same, through register_scenarios: one call, two names, one settings object)
        pair = {"constants": {"c1": 3.0}}
        self.b.register_scenarios({"s1": pair, "s3": pair}, "smA")
        b = self.b
        self.app = BptkServer(__name__, lambda: b)
        self.client = self.app.test_client()

    def close(self):
        self.b.destroy()

    def merge(self, key, new):
        rec = self.settings[key]
        for k in ("constants", "points", "runspecs"):
            if k in new:
                rec.setdefault(k, {}).update(copy.deepcopy(new[k]))

    def do(self, op):
        b, r = self.b, self.rng
        name = ALPHA[op]
        v = r.choice([4.0, 7.5, 0.5])
        pts = r.choice([[[0.0, 2.0], [5.0, 2.0]], [[0.0, 0.0], [3.0, 9.0], [6.0, 1.0]]])
        if name == "reg_const":
            b.register_scenarios({"n": {"constants": {"c1": v}}}, "smA")
            self.settings[("smA", "n")] = {"constants": {"c1": v}}
            self.tainted.discard(("smA", "n"))
        elif name == "reg_again":
            # the same scenario name is registered again with OTHER keys: nothing of its previous definition (or of the runs
            # made with it) may survive
            kind = r.choice(["c2", "runspecs", "none"])
            new = {"c2": {"constants": {"c2": v}}, "runspecs": {"runspecs": {"stoptime": 4.0}}, "none": {}}[kind]
            b.register_scenarios({"n": copy.deepcopy(new)}, "smA")
            self.settings[("smA", "n")] = copy.deepcopy(new)
            self.tainted.discard(("smA", "n"))
            self.touched.append("constants")
        elif name == "reg_pts":
            b.register_scenarios({"p": {"points": {"p1": pts}}}, "smB")
            self.settings[("smB", "p")] = {"constants": {"c3": 0.5}, "points": {"p1": pts, "p2": copy.deepcopy(BP2)}}
            self.tainted.discard(("smB", "p"))
            self.touched.append("points")
        elif name == "run_A0":
            b.run_scenarios(scenarios=["s0"], scenario_managers=["smA"], equations=["s2"], return_format="df")
        elif name == "sess_A0_const":
            st = {"smA": {"s0": {"constants": {"c2": v}}}}
            b.begin_session(scenarios=["s0"], scenario_managers=["smA"], settings=copy.deepcopy(st), equations=["s1", "s2"], starttime=0.0, dt=1.0)
            self.merge(("smA", "s0"), st["smA"]["s0"])
            b.run_step()
            b.run_step()
            b.end_session()
            self.touched.append("constants")
        elif name == "sess_A1_const":
            # begin-session settings for s1, whose registration shared its settings object with s3: s3 must not notice
            st = {"smA": {"s1": {"constants": {"c1": v, "c2": v / 2.0}}}}
            b.begin_session(scenarios=["s1"], scenario_managers=["smA"], settings=copy.deepcopy(st), equations=["s1", "s2"], starttime=0.0, dt=1.0)
            self.merge(("smA", "s1"), st["smA"]["s1"])
            b.run_step()
            b.end_session()
            self.touched.append("constants")
        elif name == "sess_B1_step_pts":
            b.begin_session(scenarios=["s1"], scenario_managers=["smB"], equations=["s2", "b1"], starttime=0.0, dt=1.0)
            b.run_step(settings={"smB": {"s1": {"points": {"p2": pts}}}})
            b.run_step()
            b.end_session()
            self.tainted.add(("smB", "s1"))
            self.touched.append("points")
        elif name == "sess_A1_step_const":
            b.begin_session(scenarios=["s1"], scenario_managers=["smA"], equations=["s2"], starttime=0.0, dt=1.0)
            b.run_step(settings={"smA": {"s1": {"constants": {"c3": v / 10}}}})
            b.end_session()
            self.tainted.add(("smA", "s1"))
            self.touched.append("constants")
        elif name == "sess_A01_step_first":
            # a session over two scenarios; the step settings name only the first one
            b.begin_session(scenarios=["s0", "s1"], scenario_managers=["smA"], equations=["s2", "s1"], starttime=0.0, dt=1.0)
            b.run_step()
            b.run_step(settings={"smA": {"s0": {"constants": {"c1": v}, "points": {"p2": pts}}}})
            b.run_step()
            b.end_session()
            self.tainted.add(("smA", "s0"))
            self.touched.append("constants")
        elif name == "reset_A0":
            b.reset_scenario_cache(scenario_manager="smA", scenario="s0")
        elif name == "rest_B0":
            st = {"smB": {"s0": {"constants": {"c1": v}, "points": {"p1": pts}}}}
            resp = self.client.post("/run", json={"scenario_managers": ["smB"], "scenarios": ["s0"], "equations": ["s1", "s2"], "settings": copy.deepcopy(st)})
            self.counters["rest_requests"] = self.counters.get("rest_requests", 0) + 1
            if resp.status_code != 200:
                return dict(kind="rest-status", status=resp.status_code, body=resp.get_data(as_text=True)[:200])
            self.merge(("smB", "s0"), st["smB"]["s0"])
            self.touched.append("points")
        elif name == "eval_base":
            for e in ("s2", "f1"):
                self.base.evaluate_equation(e, 3.0)
        elif name == "sess_open_A2":
            st = {"smA": {"s2": {"points": {"p1": pts}}}}
            b.begin_session(scenarios=["s2"], scenario_managers=["smA"], settings=copy.deepcopy(st), equations=["s1"], starttime=0.0, dt=1.0)
            self.merge(("smA", "s2"), st["smA"]["s2"])
            b.run_step()
            self.touched.append("points")
        elif name == "rest_A1_start_later_then_zero":
            # the scenario is moved to a later start time, run, and then moved back to a start time of exactly 0
            for rs in ({"starttime": 2.0}, {"starttime": 0.0}):
                st = {"smA": {"s1": {"runspecs": dict(rs)}}}
                resp = self.client.post("/run", json={"scenario_managers": ["smA"], "scenarios": ["s1"], "equations": ["s1"], "settings": copy.deepcopy(st)})
                self.counters["rest_requests"] = self.counters.get("rest_requests", 0) + 1
                if resp.status_code != 200:
                    return dict(kind="rest-status", status=resp.status_code, body=resp.get_data(as_text=True)[:200])
                self.merge(("smA", "s1"), st["smA"]["s1"])
        elif name == "rest_A0_runspecs":
            # incl. a finer dt / a start time between the old grid points for a scenario that has already been run on the coarser grid
            st = {"smA": {"s0": {"runspecs": r.choice([{"stoptime": 3.0}, {"dt": 0.5}, {"dt": 0.25, "stoptime": 2.0}, {"starttime": 0.5, "dt": 0.5}, {"dt": 0.125, "stoptime": 1.0},
                                                                   {"starttime": 0.0, "stoptime": 5.0, "dt": 1.0}, {"starttime": 0.0}, {"starttime": 2.0}])}}}      # incl. back to a start time of 0
            # (run specs accumulate in the scenario: a combination that leaves no grid at all - a start at or after the stop - asks for nothing
            #  that could be compared, so such a draw is replaced by the complete specification)
            merged = dict(self.settings[("smA", "s0")].get("runspecs", {}), **st["smA"]["s0"]["runspecs"])
            if merged.get("starttime", BASE["run"][0]) >= merged.get("stoptime", BASE["run"][1]):
                st = {"smA": {"s0": {"runspecs": {"starttime": 0.0, "stoptime": 5.0, "dt": 1.0}}}}
            resp = self.client.post("/run", json={"scenario_managers": ["smA"], "scenarios": ["s0"], "equations": ["s1"], "settings": copy.deepcopy(st)})
            self.counters["rest_requests"] = self.counters.get("rest_requests", 0) + 1
            if resp.status_code != 200:
                return dict(kind="rest-status", status=resp.status_code, body=resp.get_data(as_text=True)[:200])
            self.merge(("smA", "s0"), st["smA"]["s0"])
        return None

    def audit(self):
        """Compare every untainted scenario and the base model with fresh builds."""
        b = self.b
        todo = [((mgr, sn), st, False) for (mgr, sn), st in sorted(self.settings.items())]
        # ... and two of them once more after their cache was reset (what a scenario computes afresh must be its own, too)
        todo += [((mgr, sn), st, True) for (mgr, sn), st in sorted(self.settings.items()) if sn in ("s3", "n")]
        for (mgr, sn), st, after_reset in todo:
            if (mgr, sn) in self.tainted:
                continue
            exp = expected(st)
            try:
                if after_reset:
                    b.reset_scenario_cache(scenario_manager=mgr, scenario=sn)
                    self.counters["comparisons_after_cache_reset"] = self.counters.get("comparisons_after_cache_reset", 0) + 1
                df = b.run_scenarios(scenarios=[sn], scenario_managers=[mgr], equations=list(EQS), return_format="df")
            except Exception as e:
                return dict(kind="run-exception", scenario=[mgr, sn], error=repr(e)[:200])
            self.counters["scenario_comparisons"] = self.counters.get("scenario_comparisons", 0) + 1
            if df is None:
                return dict(kind="no-result", scenario=[mgr, sn])
            for e in EQS:
                col = "%s_%s_%s" % (mgr, sn, e)
                if col not in df.columns and e in df.columns:
                    col = e   # single manager + single scenario: bptk renames the series to the bare equation name
                if col not in df.columns:
                    return dict(kind="missing-equation", scenario=[mgr, sn], equation=e, settings=st)
                got = {float(t): float(v) for t, v in df[col].items()}
                want = exp[e]
                if sorted(got) != sorted(want):
                    return dict(kind="grid", scenario=[mgr, sn], equation=e, got=sorted(got), expected=sorted(want), settings=st)
                for t in want:
                    if not (abs(got[t] - want[t]) <= 1e-9 * max(1.0, abs(want[t]))):
                        return dict(kind="value", scenario=[mgr, sn], equation=e, t=t, got=got[t], expected=want[t], settings=st)
        exp = expected({})
        self.counters["base_comparisons"] = self.counters.get("base_comparisons", 0) + 1
        for e in EQS:
            for t, want in exp[e].items():
                try:
                    got = float(self.base.evaluate_equation(e, t))
                except Exception as ex:
                    return dict(kind="base-exception", equation=e, t=t, error=repr(ex)[:200])
                if not (abs(got - want) <= 1e-9 * max(1.0, abs(want))):
                    return dict(kind="base-value", equation=e, t=t, got=got, expected=want)
        if dict(self.base.points) != BASE["points"]:
            return dict(kind="base-points", got={k: v for k, v in self.base.points.items()})
        return None

    def aliasing(self):
        seen, shared = {}, []
        for mname, mgr in self.b.scenario_manager_factory.scenario_managers.items():
            for sname, sc in mgr.scenarios.items():
                for attr in ("points", "memo", "equations"):
                    obj = getattr(sc.model, attr, None)
                    if obj is None:
                        continue
                    if id(obj) in seen and seen[id(obj)] != (mname, sname):
                        shared.append((attr, seen[id(obj)], (mname, sname)))
                    seen.setdefault(id(obj), (mname, sname))
                if getattr(sc.model, "points", None) is self.base.points:
                    shared.append(("points", "BASE", (mname, sname)))
        return shared


def run_history(seq, counters, vseed=0):
    w = World(counters, vseed)
    try:
        first = w.audit()
        if first is not None:
            first["after"] = []
            return first, w
        for pos, op in enumerate(seq):
            try:
                x = w.do(op)
            except Exception as e:
                import traceback
                x = dict(kind="operation-exception", error=traceback.format_exc()[-500:])
            if x is None:
                x = w.audit()
            if x is not None:
                x["after"] = [ALPHA[o] for o in seq[:pos + 1]]
                x["shared_containers"] = [list(map(str, s)) for s in w.aliasing()[:6]]
                return x, w
        return None, w
    finally:
        w.close()


def run_case(case):
    counters = {}
    nts = []
    seqs = [case["seq"]] if case["kind"] == "random" else \
        [case["prefix"] + list(t) for L in range(case["L"] - len(case["prefix"]) + 1) for t in itertools.product(range(len(ALPHA)), repeat=L)]
    for seq in seqs:
        counters["histories"] = counters.get("histories", 0) + 1
        w, world = run_history(seq, counters, case.get("vseed", 0))
        if world.touched:
            nts.append("hist:" + ",".join(map(str, seq)))
        if w is not None:
            return dict(verdict="violated", nt=nts, counters=counters, mech="%s" % w["kind"], witness=w)
    return dict(verdict="held", nt=nts, counters=counters, sample=dict(case=case))
