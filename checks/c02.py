"""C02 - SD DSL expressions keep the grouping of the Python expression.

Oracle: the same tree evaluated with ordinary Python arithmetic (vlib.expr.ev).
Workload: exhaustive (outer, position, inner) table at depth 2 with rotating
leaf kinds, random trees of depth 3-5; each tree evaluated as a converter and
as the equation of a stock (one Euler step), because the time substitution in
a stock equation is textual as well.
"""
import random

from vlib import expr as X

ID = "C02"
LEVEL = "exploration"
TECHNIQUE = "differential oracle: DSL-built tree vs plain Python arithmetic on the same tree"
RULE = ("depth-2: every (outer op, operand position, inner op) over + - * / ** % neg, 6 comparisons, If/And/Or/Not, "
        "min max abs sqrt exp sin cos tan arctan round and 7 array aggregates, x4 leaf-kind rotations (constant, converter, stock, python "
        "float left/right, time()); deeper: seeded random typed trees of depth 3-5. Each tree runs in 2 contexts "
        "(converter; stock equation through one Euler step). Plus power towers over negative bases and % with operands of opposite sign. Plus comparisons of function values used as numbers ((f(x) > y) + (f(x) > y) etc. for 7 functions). Plus 25 forms in which an arrayed expression (negated, scaled, summed) stands where a scalar function, a power, a comparison or an If branch expects a single value: each must be rejected. distinct_nontrivial = distinct (outer,pos,inner) triples "
        "(or tree digests for deep trees) whose value changes when compound operands are pasted without parentheses.")
ASSUMPTIONS = ["Python semantics for and/or/not, bool-as-int and % are 'ordinary arithmetic'",
               "trees whose reference value is non-finite, complex, out of 1e-9..1e12 or within 1e-6 of a discontinuity are dropped (counted)",
               "an exception anywhere between construction and evaluation counts as 'rejected', which the property allows"]
REQUIRED = {"evaluated_converter": 50, "evaluated_stock": 50, "grouping_sensitive": 20}
BUDGET_S = {"quick": 90, "thorough": 900}

NUM_BIN = ["+", "-", "*", "/", "**", "%"]
CMP = ["<", ">", "<=", ">=", "==", "!="]
AGG = ["sum", "prod", "mean", "median", "stddev", "size", "rank"]
VALSETS = [dict(c1=7.0, c2=3.0, c3=2.0, s1=4.0, v1=5.5, w1=2.75, w2=-1.25), dict(c1=1.5, c2=6.0, c3=3.0, s1=2.5, v1=9.25, w1=0.5, w2=4.0)]
VECS = dict(vec=[3.0, -1.5, 4.0], mat=[[1.0, 2.5], [-3.0, 4.0]])
T0, DT = 1.0, 0.5

# operator "shapes": (name, arity, operand types, result type)
def shapes():
    s = []
    for o in NUM_BIN:
        s.append((("bin", o), ["n", "n"], "n"))
    s.append((("neg",), ["n"], "n"))
    for o in CMP:
        s.append((("cmp", o), ["n", "n"], "b"))
    s.append((("if",), ["b", "n", "n"], "n"))
    s.append((("and",), ["b", "b"], "b"))
    s.append((("or",), ["b", "b"], "b"))
    s.append((("not",), ["b"], "b"))
    for f in ("min", "max", "sinwave", "coswave"):
        s.append((("fn", f), ["n", "n"], "n"))
    for f in ("abs", "sqrt", "exp", "sin", "cos", "tan", "arctan"):
        s.append((("fn", f), ["n"], "n"))
    s.append((("fn", "round"), ["n"], "n"))
    return s


SHAPES = shapes()
LEAF_ROT = [
    [["ref", "c1"], ["ref", "c2"], ["ref", "c3"]],
    [["ref", "v1"], ["num", 2.0], ["ref", "s1"]],
    [["num", 6.5], ["ref", "c2"], ["time"]],
    [["ref", "s1"], ["ref", "v1"], ["num", 1.25]],
]


def mk(shape, ops):
    head = shape[0]
    if head[0] == "bin":
        return ["bin", head[1], ops[0], ops[1]]
    if head[0] == "cmp":
        return ["cmp", head[1], ops[0], ops[1]]
    if head[0] == "fn":
        if head[1] == "round":
            return ["fn", "round", ops[0], 1]
        return ["fn", head[1]] + list(ops)
    return [head[0]] + list(ops)


def leaf(typ, pool, i):
    if typ == "n":
        return pool[i % len(pool)]
    a, b = pool[i % len(pool)], pool[(i + 1) % len(pool)]
    return ["cmp", "<" if i % 2 else ">", a, b]


def depth2_cases():
    cases = []
    inner_all = [(s, None) for s in SHAPES] + [((("agg", n), [], "n"), n) for n in AGG]
    for oi, osh in enumerate(SHAPES):
        for pos, ptype in enumerate(osh[1]):
            for ish, aggn in inner_all:
                # type discipline: numeric slots take numeric inners; boolean slots
                # boolean inners; plus the two mixed forms python itself allows
                ok = ish[2] == ptype
                mixed = (ptype == "n" and ish[2] == "b" and osh[0] in (("bin", "+"), ("bin", "*"), ("cmp", "=="), ("cmp", "!=")))
                if not (ok or mixed):
                    continue
                for rot, pool in enumerate(LEAF_ROT):
                    if aggn:
                        inner = ["agg", aggn, "vec" if rot % 2 == 0 else "mat"] + ([2] if aggn == "rank" else [])
                    else:
                        inner = mk(ish, [leaf(t, pool, j) for j, t in enumerate(ish[1])])
                    ops = []
                    for j, t in enumerate(osh[1]):
                        if j == pos:
                            ops.append(inner)
                        else:
                            ops.append(leaf(t, pool, j + 1))
                    tree = mk(osh, ops)
                    key = "%s@%d<-%s" % ("/".join(osh[0]), pos, "/".join(ish[0]))
                    cases.append(dict(kind="d2", key=key, tree=tree, vals=rot % 2))
    return cases


def rand_tree(rng, depth, typ="n"):
    if depth <= 0 or (depth < 3 and rng.random() < 0.25):
        if typ == "n":
            r = rng.random()
            if r < 0.5:
                return ["ref", rng.choice(["c1", "c2", "c3", "v1", "s1", "w1", "w2"])]
            if r < 0.8:
                return ["num", rng.choice([0.5, 1.25, 2.0, 3.0, 6.5, -1.5, 10.0])]
            if r < 0.9:
                return ["time"]
            n = rng.choice(AGG)
            return ["agg", n, rng.choice(["vec", "mat"])] + ([rng.choice([1, 2, 3])] if n == "rank" else [])
        return ["cmp", rng.choice(CMP[:4]), rand_tree(rng, 0), rand_tree(rng, 0)]
    cands = [s for s in SHAPES if s[2] == typ]
    # weight the binary arithmetic operators up: they carry the grouping risk
    if typ == "n" and rng.random() < 0.6:
        cands = [s for s in cands if s[0][0] in ("bin", "neg")]
    sh = rng.choice(cands)
    return mk(sh, [rand_tree(rng, depth - 1, t) for t in sh[1]])


ARRAY_AS_SCALAR = ["F.abs(-A)", "F.max(2.0*A, 0.0)", "F.min(x, -A)", "F.If(x > 1.0, -A, x)", "F.If(x > 1.0, x, 2.0*A)", "(-A)**2", "(3.0*A) > x", "x - F.abs(2.0*A)",
                   "F.abs(A)", "F.max(A+A, 1.0)", "F.sqrt(A*2.0)", "x % (-A)", "F.exp(-A)", "F.abs(A-A)", "F.round(2.0*A, 1)", "(A*A) > x", "F.min(A, x)", "F.abs(-(-A))",
                   "F.max(M*2.0, x)", "F.abs(-M)", "x ** (2.0*A)", "F.sin(-A)", "F.If(A > 1.0, x, x)", "F.abs(A/2.0)", "F.max(-A, -A)"]


def bool_arith_cases():
    """Comparisons whose operands are function calls, used as numbers (True counts as 1): (f(x) > y) + (f(x) > y), (..) - (..), (..) * 3"""
    cases = []
    A, Bc, Cc = ["ref", "c3"], ["ref", "c2"], ["num", 0.25]
    for f in ("exp", "sin", "cos", "tan", "arctan", "sqrt", "abs"):
        fx = ["fn", f, A]
        c_true, c_false = ["cmp", ">", fx, ["num", -50.0]], ["cmp", "<", fx, ["num", -50.0]]
        c_mixed = ["cmp", ">", fx, Cc]
        for op in ("+", "-", "*"):
            for (l, r) in ((c_true, c_true), (c_true, c_false), (c_mixed, c_true)):
                cases.append(dict(kind="d2", key="bool-arith/%s/%s" % (f, op), tree=["bin", op, l, r], vals=0))
        cases.append(dict(kind="d2", key="bool-arith/%s/scaled" % f, tree=["bin", "*", c_true, ["num", 3.0]], vals=1))
        cases.append(dict(kind="d2", key="bool-arith/%s/sum3" % f, tree=["bin", "+", ["bin", "+", c_true, c_mixed], c_true], vals=1))
    # a comparison (true counts as 1) as the ARGUMENT of a function: exp(a > b) is e, in full precision
    for f in ("exp", "sin", "cos", "tan", "arctan", "sqrt", "abs"):
        for cmp_ in (["cmp", ">", A, ["num", -50.0]], ["cmp", "<", A, ["num", -50.0]], ["and", ["cmp", ">", A, ["num", -50.0]], ["cmp", ">", Bc, ["num", -50.0]]]):
            cases.append(dict(kind="d2", key="function-of-comparison/%s" % f, tree=["fn", f, cmp_], vals=0))
            cases.append(dict(kind="d2", key="function-of-comparison/%s/scaled" % f, tree=["bin", "*", ["fn", f, cmp_], ["num", 100000.0]], vals=1))
    # comparisons of plain elements whose VALUES are numpy scalars (converters defined by exp / sin), used as numbers
    W1, W2 = ["ref", "w1"], ["ref", "w2"]
    for vs in (0, 1):
        cmps = [["cmp", ">", W1, ["num", 1.0]], ["cmp", ">", W2, ["num", 1.0]], ["cmp", "<", W1, W2], ["cmp", ">=", W2, ["ref", "c1"]], ["cmp", "<", W2, ["num", 100.0]], ["cmp", "<", W1, ["num", 100.0]]]
        for i, l in enumerate(cmps):
            for r in cmps[i:]:
                for op in ("+", "-", "*"):
                    cases.append(dict(kind="d2", key="bool-arith/numpy-valued-elements/%s" % op, tree=["bin", op, l, r], vals=vs))
            cases.append(dict(kind="d2", key="bool-arith/numpy-valued-elements/neg", tree=["bin", "-", ["ref", "c1"], ["neg", l]], vals=vs))
            cases.append(dict(kind="d2", key="bool-arith/numpy-valued-elements/in-diff", tree=["bin", "-", ["ref", "c1"], ["bin", "+", l, cmps[(i + 1) % len(cmps)]]], vals=vs))
    return cases


def dot_cases():
    """A vector's dot product (a sum of products) as an operand: it must stay one operand"""
    cases = []
    DOT = ["agg", "dot", "vec"]
    for op in NUM_BIN:
        for other in (["ref", "c1"], ["ref", "v1"], ["num", 2.0], ["bin", "+", ["ref", "c2"], ["ref", "c3"]]):
            cases.append(dict(kind="d2", key="dot-operand/%s@1" % op, tree=["bin", op, other, DOT], vals=0))
            cases.append(dict(kind="d2", key="dot-operand/%s@0" % op, tree=["bin", op, DOT, other], vals=1))
        cases.append(dict(kind="d2", key="dot-operand/%s/both" % op, tree=["bin", op, DOT, DOT], vals=0))
    cases.append(dict(kind="d2", key="dot-operand/neg", tree=["bin", "-", ["ref", "c1"], ["neg", DOT]], vals=0))
    cases.append(dict(kind="d2", key="dot-operand/abs", tree=["bin", "-", ["ref", "c1"], ["fn", "abs", ["bin", "-", ["ref", "c2"], DOT]]], vals=0))
    cases.append(dict(kind="d2", key="dot-operand/time", tree=["bin", "-", DOT, ["bin", "-", ["ref", "c1"], ["time"]]], vals=0))
    return cases


def power_tower_cases():
    """(x ** p) ** q with a base that is negative (or whose sign matters): not the same as x ** (p*q)"""
    cases = []
    neg_bases = [["bin", "-", ["ref", "c2"], ["ref", "c1"]], ["neg", ["ref", "c1"]], ["num", -3.0], ["bin", "*", ["num", -1.5], ["ref", "c3"]], ["bin", "-", ["num", 1.0], ["ref", "v1"]]]
    for nb in neg_bases:
        for (p_, q_) in ((2.0, 0.5), (4.0, 0.25), (2.0, 1.5), (2.0, 2.0)):
            tower = ["bin", "**", ["bin", "**", nb, ["num", p_]], ["num", q_]]
            cases.append(dict(kind="d2", key="power-tower/%g/%g" % (p_, q_), tree=tower, vals=0))
            cases.append(dict(kind="d2", key="power-tower-in-diff/%g/%g" % (p_, q_), tree=["bin", "-", ["ref", "c1"], tower], vals=1))
    # % with operands of opposite sign (the remainder takes the sign of the divisor)
    for (l, r) in ((["bin", "-", ["ref", "c2"], ["ref", "c1"]], ["num", 3.0]), (["ref", "c1"], ["num", -3.0]), (["neg", ["ref", "v1"]], ["ref", "c2"]), (["bin", "-", ["time"], ["num", 4.0]], ["num", 3.0])):
        cases.append(dict(kind="d2", key="mod-opposite-signs", tree=["bin", "%", l, r], vals=0))
        cases.append(dict(kind="d2", key="mod-opposite-signs-in-if", tree=["if", ["cmp", "==", ["bin", "%", l, r], ["num", 2.0]], ["ref", "c1"], ["ref", "c2"]], vals=0))
    return cases


def gen_cases(tier, seed):
    cases = depth2_cases() + bool_arith_cases() + power_tower_cases() + dot_cases()
    # an arrayed expression where a single value is expected has no value: it must be rejected (at definition or at evaluation)
    for form in ARRAY_AS_SCALAR:
        for ctx in ("converter", "stock"):
            cases.append(dict(kind="array-as-scalar", form=form, ctx=ctx, vals=0))
    # an expression where only a number is supported: the equation of a constant
    for first in (None, 7.0):
        for tree in (["bin", "-", ["ref", "c1"], ["ref", "c2"]], ["bin", "*", ["ref", "c3"], ["num", 2.0]], ["ref", "c1"], ["fn", "exp", ["ref", "c3"]], ["neg", ["ref", "c2"]],
                     ["bin", "+", ["ref", "v1"], ["num", 1.0]], ["if", ["cmp", ">", ["ref", "c1"], ["ref", "c2"]], ["ref", "c1"], ["ref", "c2"]], ["agg", "sum", "vec"]):
            cases.append(dict(kind="constant-expr", tree=tree, first=first, vals=0))
    rng = random.Random(1000 + seed)
    n = 2500 if tier == "quick" else 120000
    for i in range(n):
        cases.append(dict(kind="deep", key=None, tree=rand_tree(rng, rng.choice([3, 3, 4, 5])), vals=i % 2))
    return cases


def EXHAUSTIVE(tier):
    return False  # depth-2 table is complete, the deep part is sampled


def naive_python(a, env):
    """The tree with compound operands pasted WITHOUT parentheses, evaluated by
    Python - used only to decide whether grouping matters for this tree."""
    k = a[0]
    if k in ("num",):
        return repr(float(a[1]))
    if k == "ref":
        return repr(float(env.ref(a[1])))
    if k == "time":
        return repr(float(env.time()))
    if k == "agg":
        return repr(float(X.ev(a, env)))
    if k == "bin":
        return "%s%s%s" % (naive_python(a[2], env), a[1], naive_python(a[3], env))
    if k == "neg":
        return "-1.0*%s" % naive_python(a[1], env)
    if k == "cmp":
        return "%s%s%s" % (naive_python(a[2], env), a[1], naive_python(a[3], env))
    if k == "if":
        return "%s if %s else %s" % (naive_python(a[2], env), naive_python(a[1], env), naive_python(a[3], env))
    if k in ("and", "or"):
        return "%s %s %s" % (naive_python(a[1], env), k, naive_python(a[2], env))
    if k == "not":
        return "not %s" % naive_python(a[1], env)
    if k == "fn":
        if a[1] == "round":
            return "round(%s,%d)" % (naive_python(a[2], env), a[3])
        f = {"sqrt": "math.sqrt", "exp": "math.exp", "sin": "math.sin", "cos": "math.cos", "tan": "math.tan", "arctan": "math.atan"}.get(a[1], a[1])
        return "%s(%s)" % (f, ",".join(naive_python(z, env) for z in a[2:]))
    raise KeyError(k)


def build_model(vals):
    from BPTK_Py import Model
    m = Model(starttime=T0, stoptime=T0 + 4 * DT, dt=DT, name="c02")
    E = {}
    for n in ("c1", "c2", "c3"):
        E[n] = m.constant(n)
        E[n].equation = vals[n]
    E["v1"] = m.converter("v1")
    E["v1"].equation = E["c2"] * 0.0 + vals["v1"]
    # converters whose value comes out of a library function: the same number, but as a numpy scalar
    from BPTK_Py import sd_functions as sd
    E["w1"] = m.converter("w1")
    E["w1"].equation = sd.exp(E["c3"] * 0.0) * vals["w1"]
    E["w2"] = m.converter("w2")
    E["w2"].equation = sd.sin(E["c3"] * 0.0) + vals["w2"]
    E["s1"] = m.stock("s1")
    E["s1"].initial_value = vals["s1"]
    E["vec"] = m.converter("vec")
    E["vec"].setup_vector(3, VECS["vec"])
    E["mat"] = m.converter("mat")
    E["mat"].setup_matrix([2, 2], VECS["mat"])
    return m, E


def run_array_as_scalar(case):
    import BPTK_Py.sddsl.functions as F
    vals = VALSETS[case["vals"]]
    m, E = build_model(vals)
    counters = {"array_as_scalar_forms": 1}
    try:
        d = eval(case["form"], {}, dict(F=F, A=E["vec"], M=E["mat"], x=E["c1"]))
        el = m.converter("probe") if case["ctx"] == "converter" else m.stock("probe")
        if case["ctx"] == "stock":
            el.initial_value = 0.25
        el.equation = d
        v = el(T0 + DT)
    except Exception as e:
        return dict(verdict="rejected", counters=counters, sample=dict(form=case["form"], rejected_with=type(e).__name__))
    return dict(verdict="violated", counters=counters, mech="array-accepted-as-scalar",
                witness=dict(form=case["form"], context=case["ctx"], value=repr(v), function_string=getattr(el, "function_string", None)))


def run_constant_expr(case):
    """An expression given to a CONSTANT: it is either rejected or the constant then has the expression's value; keeping another value silently is neither."""
    vals = VALSETS[case["vals"]]
    tree = case["tree"]
    env = X.Env(vals, t=T0, vecs=VECS)
    env.t0 = T0
    counters = {"constant_expression_forms": 1}
    try:
        ref = X.ev(tree, env)
    except X.IllConditioned:
        return dict(verdict="illcond", counters={"illcond": 1})
    m, E = build_model(vals)
    try:
        k = m.constant("k")
        if case.get("first") is not None:
            k.equation = case["first"]
        k.equation = X.to_dsl(tree, E, m)
        got = k(T0)
        seen_by_dependant = None
        dep = m.converter("dep")
        dep.equation = k * 2.0
        seen_by_dependant = dep(T0)
    except Exception as e:
        return dict(verdict="rejected", counters=counters, sample=dict(tree=X.show(tree), rejected_with=type(e).__name__))
    if not X.close(got, ref) or not X.close(seen_by_dependant, 2.0 * float(ref)):
        return dict(verdict="violated", counters=counters, mech="constant-given-an-expression-keeps-another-value",
                    witness=dict(tree=X.show(tree), expected=float(ref), got=repr(got), dependant=repr(seen_by_dependant), value_before=case.get("first")))
    return dict(verdict="held", counters=counters)


def run_case(case):
    import math
    if case["kind"] == "array-as-scalar":
        return run_array_as_scalar(case)
    if case["kind"] == "constant-expr":
        return run_constant_expr(case)
    vals = VALSETS[case["vals"]]
    tree = case["tree"]
    env = X.Env(vals, t=T0, vecs=VECS)
    env.t0 = T0         # sinwave / coswave count time from the model's start
    counters = {}
    try:
        ref = X.ev(tree, env)
        if env.min_dist < 1e-6:
            raise X.IllConditioned("near discontinuity")
        if not isinstance(ref, (bool, float, int)):
            raise X.IllConditioned("type")
    except X.IllConditioned as e:
        return dict(verdict="illcond", counters={"illcond": 1})
    # does grouping matter for this tree?
    sensitive = False
    try:
        nv = eval(naive_python(tree, X.Env(vals, t=T0, vecs=VECS)), {"math": math, "sinwave": lambda a_, p_: a_ * math.sin(2 * math.pi * (T0 - T0) / p_), "coswave": lambda a_, p_: a_ * math.cos(2 * math.pi * (T0 - T0) / p_)})
        sensitive = not X.close(nv, ref)
    except Exception:
        sensitive = True
    nt = None
    if sensitive:
        counters["grouping_sensitive"] = 1
        nt = case["key"] or ("deep:" + X.show(tree))

    out = {}
    # context 1: converter
    fs = {}
    try:
        m, E = build_model(vals)
        d = X.to_dsl(tree, E, m)
        cv = m.converter("probe")
        cv.equation = d
        fs["converter"] = cv.function_string
        out["converter"] = cv(T0)
        counters["evaluated_converter"] = 1
    except Exception as e:
        out["converter"] = ("rejected", type(e).__name__ + ": " + str(e)[:120])
        counters["rejected_converter"] = 1
    # context 2: stock equation, one Euler step; only numeric trees
    if not isinstance(ref, bool):
        try:
            m, E = build_model(vals)
            d = X.to_dsl(tree, E, m)
            st = m.stock("probe")
            st.initial_value = 0.25
            st.equation = d
            fs["stock"] = st.function_string
            v = st(T0 + DT)
            out["stock"] = (v - 0.25) / DT
            counters["evaluated_stock"] = 1
        except Exception as e:
            out["stock"] = ("rejected", type(e).__name__ + ": " + str(e)[:120])
            counters["rejected_stock"] = 1

    bad = {}
    for ctx, v in out.items():
        if isinstance(v, tuple):
            continue
        tol = 1e-9 if ctx == "converter" else 1e-7  # (v-init)/dt loses a few digits
        if not X.close(v, ref, rel=tol, ab=tol * 1e-2 if ctx == "stock" else 1e-12):
            bad[ctx] = v
    if bad:
        return dict(verdict="violated", nt=nt, counters=counters,
                    mech="grouping:" + (case["key"] or "deep"),
                    witness=dict(tree=X.show(tree), expected=ref, got={k: repr(v) for k, v in bad.items()},
                                 function_string=fs, vals=vals, t=T0))
    if all(isinstance(v, tuple) for v in out.values()):
        return dict(verdict="rejected", nt=nt, counters=counters, sample=dict(tree=X.show(tree), why=out))
    return dict(verdict="held", nt=nt, counters=counters,
                sample=dict(tree=X.show(tree), expected=ref, got={k: repr(v) for k, v in out.items()}))
