"""C16 - server instances are isolated from one another.

Oracle: solo replay.  Requests addressed to k instances are interleaved on one
server; every response an instance gives must equal the response it gives when
its own requests are replayed alone on a fresh server (instance ids
normalised).  Two factory styles: a new model per instance and one module-level
model registered by every instance."""
import itertools
import json
import random
import os
import re
import subprocess
import sys
import tempfile

ID = "C16"
LEVEL = "exploration"
TECHNIQUE = "solo-replay differential over interleaved multi-instance request histories; HTTP request/response recorder"
RULE = ("k=2..3 instances, 3-8 requests each from {begin-session (with / without settings), run-step with constants / points / {} / no body, "
        "run-steps, stream-steps, session-results, flat-session-results, end-session, keep-alive, stop-instance}; ALL interleavings of 2x3 requests "
        "for 12 script pairs (quick) / 40 (thorough) + seeded random interleavings of longer scripts; a malformed start-instance request (timeout values that are no numbers) thrown in by a third party in every third random case; one instance stopped or timed out "
        "(controlled clock) midway; instances created up front, lazily (also after another instance was stopped) or by one /start-instances batch; three factory styles (model per instance / one shared module-level model / engines that load JSON scenario files and a model file from the working directory); begin-session settings incl. run specs that move one instance onto another time grid; with and without a file adapter. The solo replays run in a FRESH PROCESS (module-level state left behind by other engines cannot reach them). "
        "distinct_nontrivial = distinct (script pair, interleaving) in which both instances change settings and at least one request of one "
        "instance lies between two requests of the other.")
ASSUMPTIONS = ["the instance that is stopped / timed out is not compared after that point; all others are",
               "responses are compared as parsed JSON (key order ignored), instance ids normalised"]
REQUIRED = {"twin_cases": 5, "short_lived_responses_after_expiry": 30, "malformed_foreign_requests": 10, "file_based_factories": 5, "solo_replays_in_fresh_process": 100, "interleavings": 200, "responses_compared": 2000, "solo_replays": 100}
BUDGET_S = {"quick": 170, "thorough": 1500}


def req_pool(rng, variant):
    from vlib.srv import MG, SC, EQS
    v = rng.choice([0.2, 0.9, 1.4])
    pts = rng.choice([[[0.0, 3.0], [10.0, 3.0]], [[0.0, 0.5], [4.0, 4.0], [15.0, 1.0]]])
    return [
        ("begin", dict(scenario_managers=[MG], scenarios=[SC], equations=list(EQS))),
        ("begin", dict(scenario_managers=[MG], scenarios=[SC], equations=list(EQS), settings={MG: {SC: {"constants": {"rate": v}}}})),
        ("begin2", dict(scenario_managers=[MG], scenarios=[SC, "alt"], equations=["stock", "rate"])),
        # a session whose settings move the scenario onto another time grid (start between the grid points of the other instances)
        ("begin", dict(scenario_managers=[MG], scenarios=[SC], equations=list(EQS), settings={MG: {SC: {"runspecs": {"starttime": rng.choice([0.5, 0.25, 2.5])}}}})),
        ("step", dict(settings={MG: {SC: {"constants": {"rate": v}}}})),
        ("step", dict(settings={MG: {SC: {"points": {"curve": pts}}}})),
        ("step", dict(settings={})),
        ("step", None),
        ("steps", dict(numberSteps=2, settings={MG: {SC: {"constants": {"cap": 10.0 + 10 * v}}}})),
        ("steps", dict(numberSteps=3, settings={})),
        ("results", None), ("flat", None), ("keepalive", None), ("end", None),
    ]


def make_script(rng, n, variant):
    pool = req_pool(rng, variant)
    s = [rng.choice(pool[:4])]
    while len(s) < n:
        r = rng.choice(pool[4:] + pool[4:9])
        s.append(r)
    return s


def gen_cases(tier, seed):
    rng = random.Random(160 + seed)
    cases = []
    npairs = 12 if tier == "quick" else 40
    for i in range(npairs):
        cases.append(dict(kind="all2x3", seed=rng.randrange(10 ** 9), shared=bool(i % 2), adapter=bool(i % 3 == 0), files=(i % 4 == 2)))
    for i in range(60 if tier == "quick" else 800):
        cases.append(dict(kind="random", seed=rng.randrange(10 ** 9), shared=bool(i % 2), adapter=bool(i % 4 == 0), files=(i % 5 == 2), k=rng.choice([2, 3]),
                          kill=rng.choice([None, "stop", "timeout", "stop"]), creation=["upfront", "lazy", "batch"][i % 3]))
    # twins: two instances that receive the same requests in lockstep on a server with an adapter; one of them times out in the middle and
    # is restored from its own state file by its next request
    for i in range(6 if tier == "quick" else 60):
        cases.append(dict(kind="twins", seed=rng.randrange(10 ** 9), shared=bool(i % 2), adapter=True, files=False, n=rng.randint(5, 9), creation="upfront"))
    return cases


def EXHAUSTIVE(tier):
    return False


URL = {"begin": ("post", "begin-session"), "begin2": ("post", "begin-session"), "step": ("post", "run-step"), "steps": ("post", "run-steps"),
       "stream": ("post", "stream-steps"), "results": ("get", "session-results"), "flat": ("get", "flat-session-results"),
       "keepalive": ("post", "keep-alive"), "end": ("post", "end-session"), "stop": ("post", "stop-instance")}


def norm(body, ids):
    for i, iid in enumerate(ids):
        body = body.replace(iid, "<ID%d>" % i)
    try:
        return json.loads(body)
    except Exception:
        return body


def play(scripts, order, shared, adapter, kill=None, kill_at=None, short=None, creation="upfront", files_tag=None, poison_at=None):
    """Runs the interleaving `order` (list of instance indices) on a fresh server.
    Returns per-instance list of (status, normalised body)."""
    from vlib import srv
    clock = srv.Clock()
    tmp = tempfile.mkdtemp(prefix="c16_", dir=".") if adapter else None
    shared_model = srv.make_model() if shared else None
    out = {i: [] for i in scripts}
    with clock:
        if files_tag is not None:
            from BPTK_Py import bptk
            inner = lambda: bptk()        # every engine loads ./scenarios/<tag>.json and ./models/<tag>.py (written by run_case)
        else:
            inner = srv.bptk_factory(shared_model=shared_model)
        engines = []

        def factory():
            b = inner()
            engines.append(b)          # engines of file-based managers run file-monitor threads: every one is destroyed at the end
            return b
        app = srv.make_server(factory, state_dir=tmp)
        c = app.test_client()
        try:
            ids = {}

            def timeout_of(i):
                return {"seconds": 30} if (short is not None and i == short) else {"hours": 6}
            if creation == "batch":
                # one /start-instances request for all of them
                batch = json.loads(c.post("/start-instances", json={"instances": len(scripts), "timeout": {"hours": 6}}).get_data(as_text=True))["instance_uuids"]
                for i, iid in zip(sorted(scripts), batch):
                    ids[i] = iid
            elif creation == "upfront":
                for i in sorted(scripts):
                    ids[i] = json.loads(c.post("/start-instance", json={"timeout": timeout_of(i)}).get_data(as_text=True))["instance_uuid"]
            pos = {i: 0 for i in scripts}
            for n, i in enumerate(order):
                if kill is not None and n == kill_at:
                    if kill == "stop" and short in ids:
                        c.post("/%s/stop-instance" % ids[short])
                    else:
                        clock.advance(seconds=45)       # the short-timeout instance expires; nobody else does
                        c.get("/full-metrics")
                if poison_at is not None and n == poison_at[0]:
                    # somebody else's malformed request (it starts no instance of the scripts): the others must not notice
                    c.post(poison_at[1], json=poison_at[2])
                clock.advance(seconds=1)
                if i not in ids:
                    # lazy creation: the instance is started right before its first request (possibly after another one was stopped)
                    ids[i] = json.loads(c.post("/start-instance", json={"timeout": timeout_of(i)}).get_data(as_text=True))["instance_uuid"]
                kind, body = scripts[i][pos[i]]
                pos[i] += 1
                method, url = URL[kind]
                kw = {"json": body} if body is not None else {}
                resp = getattr(c, method)("/%s/%s" % (ids[i], url), **kw)
                out[i].append((kind, resp.status_code, norm(resp.get_data(as_text=True), [ids[i]])))
        finally:
            srv.destroy_server(app)
            for b in engines:
                try:
                    b.destroy()
                except Exception:
                    pass
    if tmp:
        import shutil
        shutil.rmtree(tmp, True)
    return out


def run_case(case):
    counters = {}
    rng = random.Random(case["seed"])
    nts = []
    if case["kind"] == "all2x3":
        scripts = {0: make_script(rng, 3, 0), 1: make_script(rng, 3, 1)}
        orders = [list(o) for o in sorted(set(itertools.permutations([0, 0, 0, 1, 1, 1])))]
        kill, kill_at, short = None, None, None
    elif case["kind"] == "twins":
        one = make_script(rng, case["n"], 0)
        scripts = {0: one, 1: json.loads(json.dumps(one))}
        order = [i for _ in one for i in (0, 1)]
        cut = 2 * rng.randint(2, len(one) - 1)
        orders = [order, order[:cut] + [1, 0] * ((len(order) - cut) // 2)]
        kill, short, kill_at = "timeout", 1, cut
        counters["twin_cases"] = 1
    else:
        k = case["k"]
        scripts = {i: make_script(rng, rng.randint(3, 8), i) for i in range(k)}
        order = [i for i in scripts for _ in scripts[i]]
        orders = []
        for _ in range(3):
            o = list(order)
            rng.shuffle(o)
            orders.append(o)
        kill = case["kill"] if case.get("creation") != "batch" else None
        short = rng.randrange(k) if kill else None      # which instance gets the short timeout / is stopped (also one created after longer-lived ones)
        kill_at = rng.randrange(1, len(order)) if kill else None
        if case.get("creation") == "lazy" and kill == "stop":
            # the stopped instance finishes its script first and is stopped; a later instance is then started (engine reuse must not leak)
            late = max(i for i in scripts if i != short)
            rest = [i for i in order if i not in (short, late)]
            rng.shuffle(rest)
            first = [short] * len(scripts[short])
            orders = [first + rest[:len(rest) // 2] + [late] * len(scripts[late]) + rest[len(rest) // 2:]]
            kill_at = len(first)
    files_tag = None
    if case.get("files"):
        from vlib import srv
        _n[0] += 1
        files_tag = "c16f_%d_%d" % (os.getpid(), _n[0])
        srv.write_scenario_files(files_tag)
    try:
        return _run(case, scripts, orders, kill, kill_at, short, files_tag, counters, nts)
    finally:
        if files_tag is not None:
            from vlib import srv
            srv.remove_scenario_files(files_tag)


_n = [0]

CHILD = r"""
import json, os, sys
import faulthandler
faulthandler.dump_traceback_later(280, exit=True)      # a child that outlives its parent (a killed shard) ends itself
sys.path[:0] = [%(repo)r, %(home)r]
os.chdir(%(cwd)r)
from checks import c16
spec = json.load(open(%(spec)r))
out = {}
for i, script in spec["scripts"].items():
    script = [(k, b) for k, b in script]
    out[i] = c16.play({int(i): script}, [int(i)] * len(script), spec["shared"], spec["adapter"], files_tag=spec["files_tag"])[int(i)]
f = open(%(out)r, "w")
json.dump(out, f)
f.close()
os._exit(0)          # leftover monitor threads of an engine must not keep the child alive
"""


def solo_in_child(scripts, shared, adapter, files_tag):
    """Every instance's own requests replayed alone on a fresh server in a FRESH PROCESS (nothing another engine left behind in
    module-level state can reach it).  Returns {instance: [(kind, status, body), ...]} or None."""
    _n[0] += 1
    sp, op = os.path.abspath("c16_solo_%d_%d.json" % (os.getpid(), _n[0])), os.path.abspath("c16_solo_%d_%d.out" % (os.getpid(), _n[0]))
    json.dump(dict(scripts={str(i): s for i, s in scripts.items()}, shared=shared, adapter=adapter, files_tag=files_tag), open(sp, "w"))
    code = CHILD % dict(repo=os.environ["VERIF_REPO"], home=os.environ["VERIF_HOME"], cwd=os.getcwd(), spec=sp, out=op)
    try:
        p = subprocess.run([sys.executable, "-W", "ignore", "-c", code], timeout=300, capture_output=True, start_new_session=True)
        if p.returncode != 0 or not os.path.exists(op):
            return None, p.stderr.decode()[-400:]
        raw = json.load(open(op))
        return {int(i): [tuple(x) for x in v] for i, v in raw.items()}, None
    finally:
        for f in (sp, op):
            try:
                os.remove(f)
            except OSError:
                pass


def _run(case, scripts, orders, kill, kill_at, short, files_tag, counters, nts):
    solo_scripts = {i: scripts[i] for i in scripts if i != short}
    solo, err = solo_in_child(solo_scripts, case["shared"], case["adapter"], files_tag)
    if solo is None:
        return dict(verdict="inconclusive", counters=counters, witness=dict(harness="solo replay child failed", error=err))
    counters["solo_replays"] = counters.get("solo_replays", 0) + len(solo)
    counters["solo_replays_in_fresh_process"] = counters.get("solo_replays_in_fresh_process", 0) + len(solo)
    if files_tag is not None:
        counters["file_based_factories"] = 1
    changes = sum(1 for i in scripts if any(b and ("settings" in b and b["settings"]) for _, b in scripts[i]))
    for order in orders:
        counters["interleavings"] = counters.get("interleavings", 0) + 1
        poison = None
        if case["kind"] == "random" and case["seed"] % 3 == 0:
            prng = random.Random(case["seed"] + len(order))
            poison = (prng.randrange(len(order)),) + prng.choice([
                ("/start-instance", {"timeout": {"seconds": "3"}}), ("/start-instance", {"timeout": {"minutes": None}}), ("/start-instance", {"timeout": {"hours": [1]}}),
                ("/start-instance", {"timeout": "soon"}), ("/start-instance", {"timeout": {"weeks": 1000000}}), ("/start-instance", {"timeout": {"days": 999999999}}), ("/start-instances", {"instances": 2, "timeout": {"seconds": "x"}}), ("/start-instance", {"timeout": {"fortnights": 2}})])
            counters["malformed_foreign_requests"] = counters.get("malformed_foreign_requests", 0) + 1
        got = play(scripts, order, case["shared"], case["adapter"], kill, kill_at, short, creation=case.get("creation", "upfront"), files_tag=files_tag, poison_at=poison)
        got = json.loads(json.dumps(got))          # same normal form as the child's answers (tuples -> lists)
        got = {int(i): [tuple(x) for x in v] for i, v in got.items()}
        if changes >= 2 and any(order[j] != order[j + 1] for j in range(len(order) - 1)):
            nts.append("%d:%s" % (case["seed"], "".join(map(str, order))))
        for i in solo:
            for n, (a, b) in enumerate(zip(got[i], solo[i])):
                counters["responses_compared"] = counters.get("responses_compared", 0) + 1
                if a != b:
                    w = dict(kind="differs-from-solo", instance=i, request_index=n, request=scripts[i][n], interleaved=a, solo=b, order=order,
                             scripts={str(k): v for k, v in scripts.items()}, shared_model=case["shared"], killed=kill)
                    mech = "differs-from-solo:%s" % ("file-scenarios" if files_tag else "shared-model" if case["shared"] else "own-model")
                    return dict(verdict="violated", nt=nts, counters=counters, mech=mech, witness=w)
        if short is not None and kill_at is not None and files_tag is None:
            # the short-lived / stopped instance itself: alone on a fresh server, with the same passing of time at the same point of ITS
            # script, it must answer the same (in particular: once it has expired it is gone, whoever else lives on the server)
            p = sum(1 for j in order[:kill_at] if j == short)
            alone = play({short: scripts[short]}, [short] * len(scripts[short]), case["shared"], case["adapter"], kill, p, short,
                         creation="lazy" if case.get("creation") == "lazy" else "upfront")
            alone = [tuple(x) for x in json.loads(json.dumps(alone[short]))]
            counters["short_lived_solo_replays"] = counters.get("short_lived_solo_replays", 0) + 1
            for n, (a, b) in enumerate(zip(got[short], alone)):
                counters["responses_compared"] = counters.get("responses_compared", 0) + 1
                if n >= p:
                    counters["short_lived_responses_after_expiry"] = counters.get("short_lived_responses_after_expiry", 0) + 1
                if a != b:
                    w = dict(kind="differs-from-solo", instance=short, request_index=n, request=scripts[short][n], interleaved=a, solo=b, order=order,
                             scripts={str(k): v for k, v in scripts.items()}, shared_model=case["shared"], killed=kill, kill_at=kill_at)
                    return dict(verdict="violated", nt=nts, counters=counters, mech="short-lived-differs-from-solo:%s" % kill, witness=w)
    return dict(verdict="held", nt=nts, counters=counters, sample=dict(case=case, scripts={str(k): [x[0] for x in v] for k, v in scripts.items()}))
