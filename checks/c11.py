"""C11 - agent events reach exactly the addressed agent, once, at the right step.

Oracle: offline checker over the handler trace recorded by instrumented Agent
subclasses; every event carries a unique id; ceil(delay/dt) in exact rational
arithmetic.  Cross-check: DataCollector.event_statistics per time."""
import itertools
import math
import random
from fractions import Fraction as Fr

ID = "C11"
LEVEL = "exploration"
TECHNIQUE = "offline exactly-once / routing / ordering checker over a unique-id event trace; receive_event contract"
RULE = ("send scripts (sent from act(), from the model's begin_round and end_round callbacks; sender, receiver incl. deleted and never-issued ids, agents that go into a state without handlers for a while, step, delay in {none,0,dt,2dt,0.3,0.7,1.5,...}) over "
        "populations of 2-8 agents of 2 types with create/delete/configure/reset histories at end_round and deletions from inside act() (the deleted agent itself is not judged in that step), dt in {1,.5,.25,.2,.1}; "
        "exhaustive: all pairs (quick) / triples (thorough) of events over <=3 agents x {no deletion, delete receiver, delete other}. "
        "distinct_nontrivial = distinct scripts in which at least one event is delayed or addressed to a changed population.")
ASSUMPTIONS = ["population changes are scripted in end_round, plus deletions from inside act(): every agent that is alive throughout its delivery step is judged",
               "an event is addressed to the agent object that carried the id when the event was sent (identity tokens of the harness agents): an id handed to another object later is not the addressee",
               "handlers are registered for the states active / idle / busy; an event that falls due while its receiver is in the handler-less state offline must be handled exactly once as soon as... at some later turn of that agent in a state with handlers (which turn is not judged), never twice, never by another agent",
               "an event whose delivery step lies after the end of the run is 'open', not lost"]
REQUIRED = {"drive:run-nocollect": 50, "drive:steps-nocollect": 50, "drive:steps": 50, "events_sent": 2000, "events_handled": 1500, "contract_evaluations": 1500, "delayed_events": 500}
BUDGET_S = {"quick": 100, "thorough": 1200}
DTS = ["1", "0.5", "0.25", "0.2", "0.1"]


def gen_cases(tier, seed):
    rng = random.Random(900 + seed)
    cases = []
    # exhaustive small space, chunked
    senders, receivers, steps = [0, 1], [0, 1, 2, 5], [0, 1]
    delays = [None, "dt", "0.7"]
    alphabet = [(s, r, k, d) for s in senders for r in receivers for k in steps for d in delays]
    n_ev = 2 if tier == "quick" else 3
    combos = list(itertools.product(range(len(alphabet)), repeat=n_ev))
    chunk = 400 if tier == "quick" else 1500
    for dt in (["1", "0.1"] if tier == "quick" else ["1", "0.5", "0.1"]):
        for dele in (None, 2, 1):
            for i in range(0, len(combos), chunk):
                cases.append(dict(kind="enum", dt=dt, delete=dele, lo=i, hi=min(len(combos), i + chunk), n_ev=n_ev))
    n = 400 if tier == "quick" else 15000
    for i in range(n):
        cases.append(dict(kind="random", seed=seed * 7919 + i))
    return cases


def EXHAUSTIVE(tier):
    return False


_st = {"contract": 0}


class ContractBroken(Exception):
    pass


def worker_init():
    # contract at the hook: an agent only ever receives events addressed to it
    from BPTK_Py import Agent
    orig = Agent.receive_event
    if getattr(orig, "_verif", False):
        return

    def addressed_to_me(self, event):
        _st["contract"] += 1
        return self.id == event.receiver_id
    try:
        import icontract
        wrapped = icontract.require(addressed_to_me, error=ContractBroken)(orig)
    except ImportError:
        def wrapped(self, event):
            if not addressed_to_me(self, event):
                raise ContractBroken("receive_event: id %r got event for %r" % (self.id, event.receiver_id))
            return orig(self, event)
    wrapped._verif = True
    Agent.receive_event = wrapped


def delay_value(d, dt):
    if d is None:
        return None
    if d == "dt":
        return float(dt)
    if d == "2dt":
        return 2 * float(dt)
    return float(d)


def hops(delay, dt):
    if delay is None:
        return 0
    f = Fr(str(delay)) / Fr(dt)
    return max(0, math.ceil(f))


def make_random(seed):
    rng = random.Random(seed)
    dt = rng.choice(DTS)
    n_a, n_b = rng.randint(1, 4), rng.randint(1, 4)
    per_round = int(round(1 / float(dt)))
    rounds = max(2, 12 // per_round + 1)
    nsteps = rounds * per_round
    script = {"send": {}, "end": {}, "state": {}}
    uid = 0
    next_id = n_a + n_b
    live_guess = list(range(next_id))
    for k in range(min(nsteps, 14)):
        if rng.random() < 0.3:
            r = rng.random()
            if r < 0.4 and live_guess:
                script["end"].setdefault(str(k), []).append(["delete", rng.choice(live_guess)])
            elif r < 0.7:
                script["end"].setdefault(str(k), []).append(["create", rng.choice(["a", "b"]), None])
            elif r < 0.85:
                script["end"].setdefault(str(k), []).append(["configure", [{"name": "a", "count": 2}, {"name": "b", "count": 1}]])
            else:
                script["end"].setdefault(str(k), []).append(["reset_agents"])
        if rng.random() < 0.15 and live_guess:
            # a deletion from inside act(): an agent removes itself or an earlier / later agent while the step is running
            actor = rng.choice(live_guess)
            script.setdefault("act", {}).setdefault(str(k), {}).setdefault(str(actor), []).append(["delete", rng.choice([actor, actor, max(0, actor - 1), actor + 1])])
        if rng.random() < 0.3:
            script["state"].setdefault(str(k), {})[str(rng.randrange(0, next_id + 3))] = rng.choice(["active", "idle", "busy", "offline", "offline"])
        for phase in ("send_begin", "send_end"):
            # events sent by the model's begin_round / end_round callbacks
            if rng.random() < 0.25:
                for _ in range(rng.randint(1, 2)):
                    d = rng.choice([None, None, "dt", "2dt", 0.3, 0.7, 1.0])
                    script.setdefault(phase, {}).setdefault(str(k), []).append([rng.randrange(0, next_id + 2), rng.randrange(0, next_id + 3), delay_value(d, dt), uid])
                    uid += 1
        for _ in range(rng.randint(0, 4)):
            snd = rng.randrange(0, next_id + 4)
            rcv = rng.choice([rng.randrange(0, next_id + 6), rng.randrange(0, 4)])
            d = rng.choice([None, None, 0.0, "dt", "2dt", 0.3, 0.7, 1.5, 0.25, 1.0, 2.0, 0.1])
            script["send"].setdefault(str(k), []).append([snd, rcv, delay_value(d, dt), uid])
            uid += 1
    agents = [{"name": "a", "count": n_a}, {"name": "b", "count": n_b}]
    # how the run is driven: whole run / whole run without data collection (as training does) / single steps, with and without data collection
    return dict(dt=dt, rounds=rounds, script=script, agents=agents, drive=["run", "run-nocollect", "steps", "steps-nocollect"][seed % 4])


def make_enum(case, combo):
    senders, receivers, steps = [0, 1], [0, 1, 2, 5], [0, 1]
    delays = [None, "dt", "0.7"]
    alphabet = [(s, r, k, d) for s in senders for r in receivers for k in steps for d in delays]
    script = {"send": {}, "end": {}}
    for uid, ai in enumerate(combo):
        s, r, k, d = alphabet[ai]
        script["send"].setdefault(str(k), []).append([s, r, delay_value(d, case["dt"]), uid])
    if case["delete"] is not None:
        script["end"]["0"] = [["delete", case["delete"]]]
    per_round = int(round(1 / float(case["dt"])))
    rounds = max(2, 10 // per_round + 1) if per_round > 1 else 6
    return dict(dt=case["dt"], rounds=rounds, script=script, agents=[{"name": "a", "count": 2}, {"name": "b", "count": 1}])


def check_trace(sc, log, event_stats):
    """Returns (witness|None, stats)."""
    dt = sc["dt"]
    stats = dict(sent=0, handled=0, delayed=0)
    # reconstruct per-step populations, handled events and times
    pop, handled, times = {}, [], {}
    token_of, handled_token, deleted_in_act, handle_state = {}, {}, {}, {}
    k = -1
    for e in log:
        if e[0] == "begin":
            k = e[4]
            times[k] = e[1]
        elif e[0] == "agents":
            pop[k] = list(e[1])
            token_of[k] = dict(zip(e[1], e[2])) if len(e) > 2 else {}
        elif e[0] == "handle" and len(e) > 3:
            handle_state[(k, e[1])] = e[3]
        elif e[0] == "handled":
            handled.append((k, e[1], e[2], e[4]))   # step, agent, uid, receiver_id
            if len(e) > 5:
                handled_token[(k, e[2])] = e[5]
        elif e[0] == "op" and e[1] == "act" and e[2][0] == "delete":
            deleted_in_act.setdefault(k, set()).add(e[2][1])
    last = k
    sent = [e for e in log if e[0] == "sent"]
    by_uid = {}
    for (k2, agent, uid, rcv) in handled:
        by_uid.setdefault(uid, []).append((k2, agent))
    exp_stats = {}
    late = set()
    for (_, snd, rcv, uid, ks, delay) in sent:
        stats["sent"] += 1
        h = hops(delay, dt)
        if delay is not None and h > 0:
            stats["delayed"] += 1
        D = ks + 1 + h
        got = by_uid.get(uid, [])
        if D > last:
            if got:
                return dict(kind="early", uid=uid, sent_step=ks, delay=delay, expected_step=D, handled=got), stats
            continue
        alive = rcv in pop.get(D, [])
        if not alive:
            if got:
                return dict(kind="dead-id-handled", uid=uid, receiver=rcv, handled=got, population=pop.get(D)), stats
            continue
        # identity: the event was addressed to the agent that carried this id when it was sent; an id that has been handed to
        # another agent object in the meantime (ids recycled by a reconfiguration) is not the addressee
        sent_tok, now_tok = token_of.get(ks, {}).get(rcv), token_of.get(D, {}).get(rcv)
        if sent_tok is not None and now_tok is not None and sent_tok != now_tok:
            if got:
                return dict(kind="delivered-to-recycled-id", uid=uid, receiver=rcv, sent_step=ks, expected_step=D, handled=got,
                            addressee_token=sent_tok, handler_token=now_tok), stats
            continue
        # the collector counts an event when it is received, i.e. in the step it falls due, by the agent that carries the id then
        name = "ping" if delay is None else "pong"
        exp_stats.setdefault(D, {}).setdefault(name, 0)
        exp_stats[D][name] += 1
        if rcv in deleted_in_act.get(D, set()):
            # deleted from inside act() during its delivery step: whether it still had its turn is not specified
            if len(got) > 1 or any(a != rcv or _k != D for (_k, a) in got):
                return dict(kind="not-exactly-once", uid=uid, receiver=rcv, sent_step=ks, delay=delay, expected_step=D, handled=got), stats
            continue
        if handle_state.get((D, rcv)) == "offline":
            # the receiver sits in a state without handlers when the event is due: when it is handled is not specified, but it is
            # neither lost nor duplicated - once the agent gets a turn in a state with handlers (same incarnation, alive) it is handled, once
            chances = [j for j in range(D, last + 1) if handle_state.get((j, rcv)) not in (None, "offline") and token_of.get(j, {}).get(rcv) == token_of.get(D, {}).get(rcv)
                       and rcv not in deleted_in_act.get(j, set())]
            if len(got) > 1 or any(a != rcv for (_k, a) in got) or (chances and (len(got) != 1 or got[0][0] < D)):
                return dict(kind="not-exactly-once", uid=uid, receiver=rcv, sent_step=ks, delay=delay, expected_step=D, handled=got, receiver_offline_when_due=True, later_turns=chances[:3]), stats
            if got:
                stats["handled"] += 1
                stats["handled_after_offline"] = stats.get("handled_after_offline", 0) + 1
                late.add(uid)
            continue
        if len(got) != 1:
            return dict(kind="not-exactly-once", uid=uid, receiver=rcv, sent_step=ks, delay=delay, expected_step=D, handled=got), stats
        (kh, agent) = got[0]
        if agent != rcv:
            return dict(kind="wrong-agent", uid=uid, receiver=rcv, handled_by=agent), stats
        if kh != D:
            return dict(kind="wrong-step", uid=uid, sent_step=ks, delay=delay, dt=dt, expected_step=D, handled_step=kh), stats
        stats["handled"] += 1
    # order: same receiver, same send step, same delivery step -> order sent
    pos = {uid: i for i, (_, _, uid, _) in enumerate(handled)}
    groups = {}
    for i, (_, snd, rcv, uid, ks, delay) in enumerate(sent):
        if uid in pos and uid not in late:
            groups.setdefault((rcv, ks, ks + 1 + hops(delay, dt)), []).append(uid)
    for key, uids in groups.items():
        got = sorted(uids, key=lambda u: pos[u])
        if got != uids:
            return dict(kind="order", receiver=key[0], sent_step=key[1], delivery_step=key[2], sent_order=uids, handled_order=got), stats
    # handled events that were never sent (duplicates are caught above)
    sent_uids = set(e[3] for e in sent)
    for (k2, agent, uid, rcv) in handled:
        if uid not in sent_uids:
            return dict(kind="phantom", uid=uid), stats
    # cross-check event_statistics
    for D, names in exp_stats.items():
        t = times[D]
        got = None
        for tt, v in event_stats.items():
            if abs(tt - t) < 1e-9:
                got = v
        if got is None or any(got.get(n, 0) != c for n, c in names.items()):
            return dict(kind="event-statistics", step=D, time=t, expected=names, got=got), stats
    return None, stats


def run_script(sc):
    from vlib import abm
    m = abm.new_model(0, sc["rounds"] - 1, float(sc["dt"]), script=sc["script"], agents=sc["agents"])
    drive = sc.get("drive", "run")
    try:
        if drive.startswith("steps"):
            # Model.run_step(step): the externally driven single step (round 0, step k)
            per_round = int(round(1 / float(sc["dt"])))
            for k in range(sc["rounds"] * per_round):
                m.run_step(k, collect_data=(drive == "steps"))
        else:
            m.run(collect_data=(drive == "run"))
    except ContractBroken as e:
        return dict(kind="wrong-agent", error=str(e)[:200], via="receive_event contract"), dict(sent=0, handled=0, delayed=0)
    except Exception as e:
        import traceback
        return dict(kind="exception:" + type(e).__name__, error=traceback.format_exc()[-500:]), dict(sent=0, handled=0, delayed=0)
    return check_trace(sc, m.log, m.data_collector.event_statistics)


def run_case(case):
    counters = {}
    c0 = _st["contract"]
    witness = None
    nts = []
    if case["kind"] == "random":
        scs = [make_random(case["seed"])]
    else:
        senders, receivers, steps = [0, 1], [0, 1, 2, 5], [0, 1]
        alphabet_n = len(senders) * len(receivers) * len(steps) * 3
        combos = itertools.islice(itertools.product(range(alphabet_n), repeat=case["n_ev"]), case["lo"], case["hi"])
        scs = (make_enum(case, c) for c in combos)
    for sc in scs:
        w, st = run_script(sc)
        counters["events_sent"] = counters.get("events_sent", 0) + st["sent"]
        counters["events_handled"] = counters.get("events_handled", 0) + st["handled"]
        counters["delayed_events"] = counters.get("delayed_events", 0) + st["delayed"]
        counters["scripts"] = counters.get("scripts", 0) + 1
        counters["drive:" + sc.get("drive", "run")] = counters.get("drive:" + sc.get("drive", "run"), 0) + 1
        if st["delayed"] or sc["script"].get("end"):
            nts.append(repr(sorted(sc["script"]["send"].items())) + repr(sorted(sc["script"].get("end", {}).items())) + sc["dt"])
        if w is not None and witness is None:
            witness = dict(first=w, script=sc)
            break
    counters["contract_evaluations"] = _st["contract"] - c0
    if witness:
        return dict(verdict="violated", nt=nts, counters=counters, mech=witness["first"]["kind"], witness=witness)
    return dict(verdict="held", nt=nts[:40], counters=counters, sample=dict(case=case))  # counted conservatively: at most 40 scripts per case
