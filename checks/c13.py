"""C13 - agent statistics equal the aggregates of the agent population.

Oracle: aggregates recomputed (math.fsum / min / max / exact mean) from the
population snapshot handed to DataCollector.collect_agent_statistics - checked
as a postcondition at that hook - and from the same snapshots for the df / dict
/ json that bptk.run_scenarios returns."""
import json
import math
import random

ID = "C13"
LEVEL = "exploration"
TECHNIQUE = "postcondition on collect_agent_statistics against recomputed aggregates + output-layer differential (df/dict/json)"
RULE = ("seeded populations: 2 agent types, 3 states, >=2 agents per (type,state) at most times, properties x:Double n:Integer "
        "(negative, zero, integer, float, large) + a String property; states and values change every step by a scripted rule so that "
        "states become empty at some times; all selections of agents x states x properties x aggregate types through bptk.run_scenarios "
        "in df, dict and json; every third case asks for two scenarios of the same manager (built from a live model with its own collector, different populations), "
        "every fifth names a second agent-based manager in the same request, every fourth repeats the request and then simulates again after reset_scenario_cache with another script (same run specs) and asks for the same selection. distinct_nontrivial = distinct (type,state,property) cells observed at some time with "
        "total != min != max != mean (pairwise different).")
ASSUMPTIONS = ["where only part of the agents of a cell carry a numeric property (a String property re-declared as a number for some agents mid-run) total / min / max are judged, mean is not", "comparison tolerance 1e-9 relative"]
REQUIRED = {"populations_given_as_numpy_numbers": 15, "direct_reruns_on_shorter_grid": 5, "two_manager_requests": 10, "reruns_checked": 20, "multi_scenario_rounds": 20, "postcondition_evaluations": 500, "cells_checked": 5000, "output_cells_checked": 2000, "cells_all_different": 100}
BUDGET_S = {"quick": 100, "thorough": 1200}
STATES = ["active", "idle", "busy"]
VALS = [-7.5, -1.0, 0.0, 0.0, 1.0, 2.5, 3.0, 10.0, 1e6, 0.1, 42.0, -0.25]


def gen_cases(tier, seed):
    n = 160 if tier == "quick" else 4000
    # every third case: two scenarios of one manager (different populations); every fourth: simulated a second time
    return [dict(seed=seed * 104729 + i, nscen=2 if i % 3 == 0 else 1, rerun=(i % 4 == 1), two_managers=(i % 5 == 2)) for i in range(n)]


_st = {"post": 0, "fail": None, "cells": 0, "alldiff": set()}


def recompute(snapshot):
    out = {}
    for (aid, typ, state, props) in snapshot:
        cell = out.setdefault(typ, {}).setdefault(state, {"count": 0, "vals": {}})
        cell["count"] += 1
        for pn, pv in (props or {}).items():
            if pv["type"] in ("Integer", "Double"):
                cell["vals"].setdefault(pn, []).append(pv["value"])
    return out


def close(a, b):
    return abs(a - b) <= 1e-9 * max(1.0, abs(a), abs(b))


def compare_stats(stats_t, exp):
    """stats_t: agent_statistics[time]; exp: recompute(snapshot). Returns witness or None."""
    for typ, states in exp.items():
        for state, cell in states.items():
            got = stats_t.get(typ, {}).get(state)
            if got is None or got.get("count") != cell["count"]:
                return dict(kind="count", type=typ, state=state, got=None if got is None else got.get("count"), expected=cell["count"])
            for pn, vals in cell["vals"].items():
                e = dict(total=math.fsum(vals), min=min(vals), max=max(vals), mean=math.fsum(vals) / len(vals))
                if len(vals) != cell["count"]:
                    del e["mean"]        # only some agents of the cell carry this number (a property re-declared for part of them): 'mean' is ambiguous there
                g = got.get(pn)
                _st["cells"] += 1
                if len(e) == 4 and len({round(v, 9) for v in e.values()}) == 4:
                    _st["alldiff"].add((typ, state, pn))
                for k, v in e.items():
                    if g is None or k not in g or g[k] is None or not close(g[k], v):
                        return dict(kind=k, type=typ, state=state, property=pn, got=None if g is None else g.get(k), expected=v, values=vals)
    for typ, states in stats_t.items():
        for state in states:
            if state not in exp.get(typ, {}):
                return dict(kind="phantom-state", type=typ, state=state)
    return None


def worker_init():
    from BPTK_Py import DataCollector
    orig = DataCollector.collect_agent_statistics
    if getattr(orig, "_verif", False):
        return

    def collect(self, time, agents):
        snap = [(a.id, a.agent_type, a.state, a.properties) for a in agents]
        r = orig(self, time, agents)
        _st["post"] += 1
        w = compare_stats(self.agent_statistics.get(time, {}), recompute(snap))
        if w is not None and _st["fail"] is None:
            _st["fail"] = dict(w, time=time, via="postcondition on collect_agent_statistics")
        return r
    collect._verif = True
    DataCollector.collect_agent_statistics = collect


def make(seed, dt=None, rounds=None):
    rng = random.Random(seed)
    dt0 = rng.choice(["1", "0.5", "0.25", "0.4", "0.75", "0.3"])       # (reciprocal not whole for the last three: the scheduler makes round(1/dt) steps per round)
    rounds0 = rng.randint(2, 4)
    dt = dt or dt0
    rounds = rounds or rounds0
    per = int(round(1 / float(dt)))
    nsteps = rounds * per
    n_a, n_b = rng.randint(2, 7), rng.randint(2, 6)

    def props():
        return {"x": {"type": "Double", "value": rng.choice(VALS)}, "n": {"type": "Integer", "value": rng.randint(-5, 9)},
                "label": {"type": "String", "value": "z"}}
    agents = [{"name": "a", "count": n_a, "properties": props()}, {"name": "b", "count": n_b, "properties": props()}]
    script = {"state": {}, "prop": {}, "end": {}}
    ids = list(range(n_a + n_b))
    never = rng.random() < 0.25   # sometimes 'busy' is never populated
    for k in range(nsteps):
        if rng.random() < 0.25:
            # population changes at the end of a step: the step's statistics must already reflect them
            if rng.random() < 0.5:
                script["end"].setdefault(str(k), []).append(["delete", rng.choice(ids)])
            else:
                script["end"].setdefault(str(k), []).append(["create", rng.choice(["a", "b"]), props()])
        for i in ids:
            if rng.random() < 0.5:
                sts = STATES[:2] if never else STATES
                script["state"].setdefault(str(k), {})[str(i)] = rng.choice(sts)
            if rng.random() < 0.6:
                script["prop"].setdefault(str(k), {})[str(i)] = {"x": rng.choice(VALS) + rng.choice([0, 0.5, 0.125]), "n": rng.randint(-20, 30)}
    if rng.random() < 0.35:
        # the String property of some agents is re-declared as a number in the middle of the run (and for one of them back again)
        script["retype"] = {}
        for i in rng.sample(ids, min(len(ids), rng.randint(1, 3))):
            k = rng.randrange(1, max(2, nsteps - 1))
            script["retype"].setdefault(str(k), {})[str(i)] = {"label": {"type": rng.choice(["Double", "Integer"]), "value": rng.choice([3.5, -2.0, 7.0]) if True else 0}}
        for k in script["retype"]:
            for i, sp_ in script["retype"][k].items():
                if sp_["label"]["type"] == "Integer":
                    sp_["label"]["value"] = int(sp_["label"]["value"])
    sel = dict(agents=rng.choice([["a"], ["b"], ["a", "b"]]),
               states=rng.choice([STATES, STATES[:2], ["idle"], ["busy", "active"]]),
               props=rng.choice([[], ["x"], ["n"], ["x", "n"]]),
               ptypes=rng.choice([["mean"], ["total", "min", "max", "mean"], ["max", "min"], ["total"]]))
    return dict(dt=dt, rounds=rounds, agents=agents, script=script, sel=sel, never_busy=never)


def check_round(b, names, sel, label, second_manager=None):
    """One round of requests (df, dict, json) for the scenarios `names` of smAbm, judged against the population
    snapshots that each scenario's model recorded in end_round during the run the answers report on."""
    w = None
    out_cells = 0
    mgr = b.scenario_manager_factory.scenario_managers["smAbm"]
    targets = [("smAbm", n) for n in names] + ([(second_manager, "scB")] if second_manager else [])
    kw = dict(scenarios=[n for (_m, n) in targets], scenario_managers=sorted(set(mg for (mg, _n) in targets)), agents=sel["agents"], agent_states=sel["states"])
    if sel["props"]:
        kw.update(agent_properties=sel["props"], agent_property_types=sel["ptypes"])
    try:
        df = b.run_scenarios(return_format="df", **kw)
        dd = b.run_scenarios(return_format="dict", **kw)
        js = json.loads(b.run_scenarios(return_format="json", **kw))
    except Exception as e:
        import traceback
        return dict(kind="output-exception:" + type(e).__name__, error=traceback.format_exc()[-500:], round=label), 0
    if _st["fail"] is not None:
        return None, 0
    for (mgname, name) in targets:
        model = b.scenario_manager_factory.scenario_managers[mgname].scenarios[name]
        # truth = the population the model had at the end of each step (recorded by the harness subclass in
        # end_round), NOT the list the scheduler handed to the collector
        snaps = {e[1]: recompute(e[2]) for e in model.log if e[0] == "population"}
        # Model.statistics() vs snapshots (boundary formulation of the postcondition)
        stats = model.statistics()
        if len(stats) != len(snaps):
            return dict(kind="times", got=len(stats), expected=len(snaps), scenario=name, round=label), out_cells
        for t, exp in snaps.items():
            w = compare_stats(stats.get(t, {}), exp)
            if w:
                w.update(time=t, scenario=name, round=label)
                return w, out_cells

        # output layer
        def expect(t, typ, state, prop=None, ptype=None):
            cell = snaps[t].get(typ, {}).get(state)
            if cell is None:
                return 0.0
            if prop is None:
                return float(cell["count"])
            vals = cell["vals"].get(prop, [])
            if not vals:
                return 0.0
            return dict(total=math.fsum(vals), min=min(vals), max=max(vals), mean=math.fsum(vals) / len(vals))[ptype]
        for typ in sel["agents"]:
            for state in sel["states"]:
                combos = [(p, pt) for p in sel["props"] for pt in sel["ptypes"]] or [(None, None)]
                for (p, pt) in combos:
                    col = "%s_%s_%s_%s" % (mgname, name, typ, state) + ("_%s_%s" % (p, pt) if p else "")
                    for t in snaps:
                        e = expect(t, typ, state, p, pt)
                        ever = any(snaps[tt].get(typ, {}).get(state) for tt in snaps)
                        try:
                            g_df = float(df[col][t]) if (df is not None and col in df.columns) else None
                        except KeyError:
                            g_df = None
                        if g_df is None and not ever and df is not None:
                            g_df = 0.0  # a state that was never populated has no column: same as zero
                        try:
                            node = js[mgname][name]["agents"][typ][state]
                            series = node["properties"][p][pt] if p else node
                            g_js = series.get(repr(float(t)), series.get(str(t)))
                            g_js = None if g_js is None else float(g_js)
                        except KeyError:
                            g_js = 0.0 if not ever else None
                        try:
                            node = dd[mgname][name]["agents"][typ][state]
                            series = node["properties"][p][pt] if p else node
                            g_dd = float(series[t])
                        except KeyError:
                            g_dd = 0.0 if not ever else None
                        out_cells += 3
                        for fmt, g in (("df", g_df), ("json", g_js), ("dict", g_dd)):
                            if g is None or not close(g, e):
                                return dict(kind="output-" + fmt, column=col, time=t, got=g, expected=e, scenario=name, round=label), out_cells
    return None, out_cells


def run_case(case):
    from vlib import abm
    from BPTK_Py import bptk
    sc = make(case["seed"])
    nscen = case.get("nscen", 1)
    variants = [sc] + [make(case["seed"] * 31 + 17 * i, dt=sc["dt"], rounds=sc["rounds"]) for i in range(1, nscen)]
    counters = {}
    p0, c0 = _st["post"], _st["cells"]
    _st["fail"] = None
    _st["alldiff"] = set()
    names = ["sc%d" % i for i in range(nscen)]
    def numpyfied(agents):
        # the initial population as a numpy-based generator would hand it over: whole numbers as numpy integers, reals as numpy doubles
        import copy, numpy as np
        out = copy.deepcopy(agents)
        for spec in out:
            for pn, pv in (spec.get("properties") or {}).items():
                if pv["type"] == "Integer":
                    pv["value"] = np.int64(pv["value"])
                elif pv["type"] == "Double":
                    pv["value"] = np.float64(pv["value"])
        return out
    as_numpy = case["seed"] % 3 == 1
    if as_numpy:
        counters["populations_given_as_numpy_numbers"] = 1
    scen = {n: {"runspecs": {"starttime": 1, "stoptime": sc["rounds"], "dt": float(sc["dt"])}, "properties": {}, "agents": numpyfied(v["agents"]) if as_numpy else v["agents"]} for n, v in zip(names, variants)}
    # the manager is built from a live model that carries its own collector
    base = abm.LogModel(name="abm", scheduler=abm.SimultaneousScheduler(), data_collector=abm.LogCollector())
    b = bptk()
    w = None
    out_cells = 0
    try:
        b.register_scenario_manager({"smAbm": {"type": "abm", "model": base, "scenarios": scen}})
        mgr = b.scenario_manager_factory.scenario_managers["smAbm"]
        for n, v in zip(names, variants):
            mgr.scenarios[n].script = v["script"]
        sel = sc["sel"]
        second = None
        if case.get("two_managers"):
            # a second agent-based manager named in the same request
            vB = make(case["seed"] * 977 + 5, dt=sc["dt"], rounds=sc["rounds"])
            baseB = abm.LogModel(name="abmB", scheduler=abm.SimultaneousScheduler(), data_collector=abm.LogCollector())
            b.register_scenario_manager({"smAbm2": {"type": "abm", "model": baseB, "scenarios": {"scB": {"runspecs": {"starttime": 1, "stoptime": sc["rounds"], "dt": float(sc["dt"])}, "properties": {}, "agents": vB["agents"]}}}})
            b.scenario_manager_factory.scenario_managers["smAbm2"].scenarios["scB"].script = vB["script"]
            second = "smAbm2"
            counters["two_manager_requests"] = 1
        w, oc = check_round(b, names, sel, "first run", second_manager=second)
        out_cells += oc
        if w is None and _st["fail"] is None and case.get("rerun"):
            # asked again (no new simulation), then simulated again on the population as it stands: other script, same run specs
            w, oc = check_round(b, names[:1], sel, "first run, asked again")
            out_cells += oc
            direct = (case["seed"] // 4) % 2 == 0 and sc["rounds"] >= 3
            for i, n in enumerate(names):
                if w is not None:
                    break
                model = mgr.scenarios[n]
                del model.log[:]
                model.step_counter = -1
                model.script = make(case["seed"] * 131 + 7 + i, dt=sc["dt"], rounds=sc["rounds"])["script"]
                if direct:
                    # the scenario object is run again directly, over a SHORTER period: only that run's times may be reported afterwards
                    model.run_specs(1, sc["rounds"] - 1, float(sc["dt"]))
                    model.run()
                    counters["direct_reruns_on_shorter_grid"] = counters.get("direct_reruns_on_shorter_grid", 0) + 1
                else:
                    b.reset_scenario_cache(scenario_manager="smAbm", scenario=n)
            if w is None:
                w, oc = check_round(b, names, sel, "second run after reset_scenario_cache")
                out_cells += oc
                counters["reruns_checked"] = 1
        if nscen > 1 and w is None:
            counters["multi_scenario_rounds"] = 1
    finally:
        b.destroy()
    counters["postcondition_evaluations"] = _st["post"] - p0
    counters["cells_checked"] = _st["cells"] - c0
    counters["output_cells_checked"] = out_cells
    counters["cells_all_different"] = len(_st["alldiff"])
    nt = ["%s/%s/%s@%d" % (c + (case["seed"],)) for c in _st["alldiff"]]
    if _st["fail"] is not None:
        w = _st["fail"]
    if w is not None:
        return dict(verdict="violated", nt=nt, counters=counters, mech=w["kind"].split(":")[0], witness=dict(first=w, scenario=dict(sc, script="(seeded)"), case=case))
    return dict(verdict="held", nt=nt, counters=counters, sample=dict(case=case, selection=sc["sel"], dt=sc["dt"]))
