"""C08 - memoised results are never stale or ambiguous.

A (histories): edit / evaluate / reset sequences on a live model; after every
   operation every element is compared on the whole grid with a freshly built
   model carrying the final definitions; scenario runs are repeated and run
   with different equation lists.
B (schedules): stochastic models; the per-equation worker threads of the
   simulation run under the controlled line scheduler with yield points on the
   lines of Model.memoize; verdict at the boundary: the reported frame must
   satisfy flow == 10*rnd, copy == rnd, stock(t+dt)-stock(t) == dt*flow(t);
   the memo-store monitor adds the witness (two values returned for one key).
"""
import itertools
import random

from vlib import monitors as M

ID = "C08"
LEVEL = "exploration"
TECHNIQUE = "fresh-rebuild differential over edit histories; conservation + unique-value-per-key oracle under a controlled line-level scheduler"
RULE = ("A: alphabet of 20 operations (incl. a member of an arrayed constant re-assigned after an aggregate over it was defined, the constant behind the stock's initial value, a named lookup's points replaced / moved in place followed by reset_cache) (three evaluation routes: evaluate_equation, Element.plot, memoize/element call) (3 converter equations, 2 flow equations, 2 stock equations, initial value number/number/constant, "
        "2 constant values, reset_cache, partial evaluation) - ALL sequences of length<=3 (both tiers), a seeded sample of 64000 of the 160000 sequences of length 4 (thorough) + random length 5-30, "
        "each in three observation modes (compare after every op through evaluate_equation / through the memo route, or only at the end), plus scenario double-runs with different equation lists, and a stochastic model run five times with changing equation lists (SdSimulation.start and bptk.run_scenarios): repeated series identical, identities hold over the union of the reported frames. "
        "B: 4 requested-equation lists x all schedules with <=1 preemption (quick) / <=2 (thorough) at LINE granularity inside Model.memoize, "
        "plus unscheduled stress runs. C: one thread evaluates (3 evaluation routes) while another edits (constant / converter / flow / stock equation, initial value, reset_cache, edit followed by reset): all schedules with <=1 (quick) / <=2 (thorough) preemptions at the lines of Model.memoize; once both are done the model must equal a fresh build with the final definitions. distinct_nontrivial = distinct edit histories in which an edited element has a cached dependant, "
        "plus distinct schedules in which two threads missed the same memo key.")
ASSUMPTIONS = ["preemption only at line boundaries of Model.memoize; <=3 worker threads, 3 grid points",
               "the fresh-rebuild oracle uses the same engine on an unshared object (the property is relational)"]
REQUIRED = {"stochastic_reruns": 40, "edit_schedules_with_preemption": 100, "histories": 500, "grid_comparisons": 5000, "schedules": 100, "schedules_with_double_miss": 5, "scenario_reruns": 20}
BUDGET_S = {"quick": 150, "thorough": 1500}

OPS = ["v0", "v1", "v2", "f0", "f1", "s0", "s1", "i5", "i100", "ic", "c2", "c7", "reset", "peek", "peek_plot", "peek_memo", "k80", "pA+reset", "pI+reset", "a1"]
PTS = [[[0.0, 1.0], [2.0, 3.0], [6.0, 0.5]], [[0.0, 4.0], [3.0, 0.0], [6.0, 2.0]]]
GRID = [0.0, 1.0, 2.0, 3.0, 4.0]
EDITS = ["c7", "v1", "v2", "f1", "s1", "i100", "reset", "c7+reset"]
EVALS = ["y@3", "f@2+v@1", "plot-y"]
EQ_LISTS = [["s", "f", "rnd"], ["rnd", "f", "s"], ["f", "copy", "rnd"], ["s", "copy"]]


def gen_cases(tier, seed):
    cases = []
    for first in range(len(OPS)):
        cases.append(dict(kind="enum", first=first, L=3))
    rng = random.Random(4242 + seed)
    if tier == "thorough":
        # length 4: a seeded sample of 3200 of the 8000 continuations of every first operation (all 160000 do not fit the budget)
        for first in range(len(OPS)):
            tails = rng.sample(range(len(OPS) ** 3), 3200)
            for c0 in range(0, 3200, 400):
                cases.append(dict(kind="enum4", first=first, tails=tails[c0:c0 + 400]))
    for i in range(150 if tier == "quick" else 5000):
        cases.append(dict(kind="random", seq=[rng.randrange(len(OPS)) for _ in range(rng.randint(5, 30))]))
    for i in range(24 if tier == "quick" else 200):
        cases.append(dict(kind="scenario", seed=seed * 31 + i))
    K = 8 if tier == "quick" else 24
    for li in range(len(EQ_LISTS)):
        for r in range(K):
            cases.append(dict(kind="sched", eqs=li, stride=r, K=K, depth=1 if tier == "quick" else 2))
    for li in range(len(EQ_LISTS)):
        cases.append(dict(kind="stress", eqs=li, runs=20 if tier == "quick" else 200))
    # stochastic model run repeatedly with changing equation lists: later runs report what earlier runs consumed
    for i in range(8 if tier == "quick" else 60):
        cases.append(dict(kind="stochastic-rerun", seed=seed * 17 + i))
    # C: an edit (or cache reset) made by one thread while another thread is inside an evaluation
    KE = 4 if tier == "quick" else 8
    for edit in EDITS:
        for ev in EVALS:
            for r in range(KE):
                cases.append(dict(kind="edit-sched", edit=edit, ev=ev, stride=r, K=KE, depth=1 if tier == "quick" else 2))
    return cases


def EXHAUSTIVE(tier):
    return False


def worker_init():
    M.install_memo_monitor()


# ---------------------------------------------------------------- part A
def defs0():
    import copy
    return dict(v=0, f=0, s=0, init=("num", 1.0), c=3.0, c2=50.0, pts=copy.deepcopy(PTS[0]), a1=0.5)


def build(defs):
    from BPTK_Py import Model
    from BPTK_Py import sd_functions as sd
    m = Model(starttime=0.0, stoptime=4.0, dt=1.0, name="hist")
    c, c2 = m.constant("c"), m.constant("c2")
    v, f, s, y = m.converter("v"), m.flow("f"), m.stock("s"), m.converter("y")
    import copy
    c2.equation = defs.get("c2", 50.0)
    m.points["curve"] = copy.deepcopy(defs.get("pts", PTS[0]))
    w = m.converter("w")
    w.equation = sd.lookup(sd.time(), "curve")          # a named lookup
    wts = m.constant("wts")
    wts.setup_vector(2, [1.0, 0.5])
    wts[1] = defs.get("a1", 0.5)
    tot = m.converter("tot")
    tot.equation = wts.arr_sum()   # an aggregate over an arrayed constant, defined before any later edit of a member
    y.equation = s * 2.0 + w + tot      # a dependant of the stock, of the lookup and of the aggregate
    apply_defs(m, defs, all_=True)
    return m


def apply_defs(m, defs, all_=False, only=None):
    from BPTK_Py import sd_functions as sd
    c, c2, v, f, s = m.constants["c"], m.constants["c2"], m.converters["v"], m.flows["f"], m.stocks["s"]
    if all_ or only == "c":
        c.equation = defs["c"]
    if all_ or only == "v":
        v.equation = [c * 2.0, c + s, sd.time() + c][defs["v"]]
    if all_ or only == "f":
        f.equation = [v, v + c][defs["f"]]
    if all_ or only == "s":
        s.equation = [f, f - c][defs["s"]]
    if all_ or only == "init":
        s.initial_value = defs["init"][1] if defs["init"][0] == "num" else c2
    if only == "c2":
        c2.equation = defs["c2"]


def snapshot(m, route=0):
    if route == 1:   # the route Element.plot uses
        return {n: [float(m.memoize(n, t)) for t in GRID] for n in ("c", "v", "f", "s", "y", "w", "tot")}
    return {n: [float(m.evaluate_equation(n, t)) for t in GRID] for n in ("c", "v", "f", "s", "y", "w", "tot")}


def run_history(seq, every, counters):
    defs = defs0()
    m = build(defs)
    cached = False
    interesting = False
    for pos, op in enumerate(seq):
        name = OPS[op]
        if name in ("v0", "v1", "v2"):
            defs["v"] = int(name[1]); apply_defs(m, defs, only="v"); edited = True
        elif name in ("f0", "f1"):
            defs["f"] = int(name[1]); apply_defs(m, defs, only="f"); edited = True
        elif name in ("s0", "s1"):
            defs["s"] = int(name[1]); apply_defs(m, defs, only="s"); edited = True
        elif name in ("i5", "i100"):
            defs["init"] = ("num", 5.0 if name == "i5" else 100.0); apply_defs(m, defs, only="init"); edited = True
        elif name == "ic":
            defs["init"] = ("const", None); apply_defs(m, defs, only="init"); edited = True
        elif name in ("c2", "c7"):
            defs["c"] = 2.0 if name == "c2" else 7.0; apply_defs(m, defs, only="c"); edited = True
        elif name == "a1":
            # a member of the arrayed constant re-assigned after the aggregate over it was defined
            defs["a1"] = 7.5 if defs.get("a1") != 7.5 else 0.5; m.constants["wts"][1] = defs["a1"]; edited = True
        elif name == "k80":
            # the constant that may be the stock's initial value
            defs["c2"] = 80.0 if defs.get("c2") != 80.0 else 50.0; apply_defs(m, defs, only="c2"); edited = True
        elif name == "pA+reset":
            # the lookup's points replaced by a new list, then the cache reset (points edits alone are not cache edits)
            import copy
            defs["pts"] = copy.deepcopy(PTS[1] if defs["pts"] != PTS[1] else PTS[0]); m.points["curve"] = copy.deepcopy(defs["pts"]); m.reset_cache(); edited = True
        elif name == "pI+reset":
            # one point moved in place (the list object stays), then the cache reset
            defs["pts"][1][1] = defs["pts"][1][1] + 2.0; m.points["curve"][1][1] = defs["pts"][1][1]; m.reset_cache(); edited = True
        elif name == "reset":
            m.reset_cache(); edited = False; cached = False
        elif name == "peek_plot":  # evaluation through the plotting route
            m.converters["y"].plot(return_df=True); edited = False; cached = True
        elif name == "peek_memo":  # evaluation through the memo lookup / element call
            m.memoize("y", 2.0); m.flows["f"](3.0); m.equation("v", 1.0); edited = False; cached = True
        else:  # peek: partial evaluation fills part of the memo
            m.evaluate_equation("y", 3.0); m.evaluate_equation("f", 1.0); edited = False; cached = True
        if edited and cached:
            interesting = True
        if every or pos == len(seq) - 1:
            got = snapshot(m, route=1 if every == 2 else 0)
            exp = snapshot(build(defs))
            counters["grid_comparisons"] = counters.get("grid_comparisons", 0) + 30
            cached = True
            if got != exp:
                bad = next(n for n in got if got[n] != exp[n])
                return dict(kind="stale", after=[OPS[o] for o in seq[:pos + 1]], element=bad, got=got[bad], expected=exp[bad], mode="every" if every else "end"), interesting
    return None, interesting


def run_scenario_case(seed, counters):
    """bptk level: repeated runs, different equation lists, cache reset."""
    from BPTK_Py import bptk
    rng = random.Random(seed)
    import copy
    defs = dict(v=rng.randrange(3), f=rng.randrange(2), s=rng.randrange(2), init=("num", rng.choice([1.0, 5.0])), c=rng.choice([2.0, 3.0, 7.0]), c2=50.0, pts=copy.deepcopy(PTS[0]))
    m = build(defs)
    b = bptk()
    try:
        b.register_model(m, scenario_manager="smH", scenario={"base": {}, "alt": {"constants": {"c": 9.0}}})
        exp = {}
        ptsnow = {}
        for sc, cval in (("base", defs["c"]), ("alt", 9.0)):
            exp[sc] = snapshot(build(dict(defs, c=cval)))
        lists = [["s"], ["s", "f"], ["f", "v", "c"], ["y", "s", "v"], ["c"], ["v", "y"]]
        lists = lists + [["w", "y"], ["y", "w", "s"]]
        cvals = {"base": defs["c"], "alt": 9.0}
        for i in range(8):
            eqs = rng.choice(lists)
            sc = rng.choice(["base", "alt"])
            r = rng.random()
            if r < 0.25:
                b.reset_scenario_cache(scenario_manager="smH", scenario=sc)
            elif r < 0.5:
                # the way the REST /run handler applies settings: reset the scenario's cache, then write points / constants into the scenario
                import copy
                scobj = b.scenario_manager_factory.get_scenario("smH", sc)
                b.reset_scenario_cache(scenario_manager="smH", scenario=sc)
                if rng.random() < 0.6:
                    pts = copy.deepcopy(rng.choice(PTS + [[[0.0, 2.0], [6.0, 2.0]]]))
                    scobj.points["curve"] = pts
                    exp[sc] = snapshot(build(dict(defs, c=cvals[sc], pts=pts)))
                    ptsnow[sc] = pts
                else:
                    cvals[sc] = rng.choice([1.0, 4.0, 6.5])
                    scobj.constants["c"] = cvals[sc]
                    exp[sc] = snapshot(build(dict(defs, c=cvals[sc], pts=ptsnow.get(sc, defs["pts"]))))
                counters["scenario_setting_changes"] = counters.get("scenario_setting_changes", 0) + 1
            df = b.run_scenarios(scenarios=[sc], scenario_managers=["smH"], equations=list(eqs), return_format="df")
            df2 = b.run_scenarios(scenarios=[sc], scenario_managers=["smH"], equations=list(eqs), return_format="df")
            counters["scenario_reruns"] = counters.get("scenario_reruns", 0) + 1
            if df is None or not df.equals(df2):
                return dict(kind="rerun-differs", scenario=sc, equations=eqs)
            for e in eqs:
                col = [float(x) for x in df["smH_%s_%s" % (sc, e)]] if "smH_%s_%s" % (sc, e) in df.columns else [float(x) for x in df[e]]
                if col != exp[sc][e]:
                    return dict(kind="scenario-stale", scenario=sc, equation=e, equations=eqs, got=col, expected=exp[sc][e], run=i)
    finally:
        b.destroy()
    return None


# ---------------------------------------------------------------- part B
def build_random_model():
    from BPTK_Py import Model
    from BPTK_Py import sd_functions as sd
    m = Model(starttime=0.0, stoptime=2.0, dt=1.0, name="rnd")
    rnd, copy, f, s = m.converter("rnd"), m.converter("copy"), m.flow("f"), m.stock("s")
    rnd.equation = sd.random(1.0, 2.0)
    copy.equation = rnd + 0.0
    f.equation = rnd * 10.0
    s.initial_value = 0.0
    s.equation = f
    k, k2 = m.constant("k"), m.converter("k2")
    k.equation = 1.0
    k2.equation = k * 2.0         # a dependant of a constant that a scenario may override with a stochastic expression string
    return m


def one_run(eqs, schedule=None):
    """Runs one batch simulation of the stochastic model; returns (frame dict, memo events, scheduler)."""
    from BPTK_Py.sdsimulation import SdSimulation
    from BPTK_Py.modeling.model import Model
    from vlib.linesched import LineScheduler, all_code_objects
    m = build_random_model()
    sim = SdSimulation(model=m, name="rnd")
    rec = M.MemoRecorder()
    sched = None
    with rec:
        if schedule is None:
            df = sim.start(output=["frame"], equations=list(eqs))
        else:
            codes = all_code_objects(Model.memoize)
            sched = LineScheduler(codes, expected=len(eqs), schedule=schedule)
            with sched:
                df = sim.start(output=["frame"], equations=list(eqs))
    frame = {c: {float(t): float(v) for t, v in df[c].items()} for c in df.columns} if df is not None else {}
    return frame, rec.events, sched


def judge_frame(frame, events):
    """Boundary oracle on the reported frame + memo witness."""
    def near(a, b):
        return abs(a - b) <= 1e-9 * max(1.0, abs(a), abs(b))
    for t in (0.0, 1.0, 2.0):
        if "f" in frame and "rnd" in frame and not near(frame["f"][t], 10.0 * frame["rnd"][t]):
            return dict(kind="ambiguous", identity="f == 10*rnd", t=t, f=frame["f"][t], rnd=frame["rnd"][t])
        if "copy" in frame and "rnd" in frame and not near(frame["copy"][t], frame["rnd"][t]):
            return dict(kind="ambiguous", identity="copy == rnd", t=t, copy=frame["copy"][t], rnd=frame["rnd"][t])
        if "copy" in frame and "f" in frame and not near(frame["f"][t], 10.0 * frame["copy"][t]):
            return dict(kind="ambiguous", identity="f == 10*copy", t=t, f=frame["f"][t], copy=frame["copy"][t])
        if "s" in frame and "f" in frame and t < 2.0 and not near(frame["s"][t + 1.0] - frame["s"][t], frame["f"][t]):
            return dict(kind="ambiguous", identity="s(t+dt)-s(t) == dt*f(t)", t=t, s0=frame["s"][t], s1=frame["s"][t + 1.0], f=frame["f"][t])
        if "s" in frame and "copy" in frame and t < 2.0 and not near(frame["s"][t + 1.0] - frame["s"][t], 10.0 * frame["copy"][t]):
            return dict(kind="ambiguous", identity="s(t+dt)-s(t) == 10*copy(t)", t=t)
    return None


def double_miss(events):
    seen = {}
    dm = 0
    for (eq, arg, key, hit, val) in events:
        k = (eq, round(arg))
        if not hit:
            seen[k] = seen.get(k, 0) + 1
    return sum(1 for v in seen.values() if v > 1)


def distinct_values(events):
    vals = {}
    for (eq, arg, key, hit, val) in events:
        vals.setdefault((eq, round(arg)), set()).add(float(val))
    return {k: sorted(v) for k, v in vals.items() if len(v) > 1}


def run_sched_case(case, counters):
    from vlib.linesched import alternatives
    eqs = EQ_LISTS[case["eqs"]]
    nts = []

    def attempt(schedule):
        frame, events, sched = one_run(eqs, schedule)
        counters["schedules"] = counters.get("schedules", 0) + 1
        counters["decisions"] = counters.get("decisions", 0) + sched.decisions
        if sched.stuck:
            return "stuck", dict(kind="stuck", why=sched.stuck, schedule=schedule), sched
        dm = double_miss(events)
        if dm:
            counters["schedules_with_double_miss"] = counters.get("schedules_with_double_miss", 0) + 1
            nts.append("sched:%d:%r" % (case["eqs"], schedule))
        w = judge_frame(frame, events)
        if w is not None:
            w.update(schedule=schedule, equations=eqs, memo_values_per_key={"%s@%d" % k: v for k, v in distinct_values(events).items()})
            return "violated", w, sched
        return "held", None, sched
    st, w, base = attempt([])
    if st != "held":
        return st, w, nts
    alts = alternatives(base.trace)
    mine = [a for i, a in enumerate(alts) if i % case["K"] == case["stride"]]
    for (d, t) in mine:
        st, w, s1 = attempt([(d, t)])
        if st != "held":
            return st, w, nts
        if case["depth"] >= 2:
            for (d2, t2) in alternatives(s1.trace):
                if d2 <= d:
                    continue
                st, w, _ = attempt([(d, t), (d2, t2)])
                if st != "held":
                    return st, w, nts
    return "held", None, nts


def run_stochastic_rerun(seed, counters):
    """The stochastic model is run several times (SdSimulation.start and bptk.run_scenarios) with different equation lists:
    a repeated run returns identical numbers, and the union of everything reported satisfies the model's identities."""
    from BPTK_Py import bptk
    from BPTK_Py.sdsimulation import SdSimulation
    rng = random.Random(seed)
    lists = [list(l) for l in EQ_LISTS] + [["rnd"], ["f"], ["s"], ["copy", "f"]]
    for via in ("sim", "bptk"):
        m = build_random_model()
        b = None
        try:
            if via == "sim":
                sim = SdSimulation(model=m, name="rnd")

                def run(eqs):
                    df = sim.start(output=["frame"], equations=list(eqs))
                    return {c: {float(t): float(v) for t, v in df[c].items()} for c in df.columns}
            else:
                b = bptk()
                b.register_model(m, scenario_manager="smR", scenario={"base": {}, "rk": {"constants": {"k": "np.random.uniform(1.0, 2.0)"}}})
                lists = lists + [["k"], ["k2"], ["k2", "k"], ["k", "rnd"]]

                def run(eqs, scen="rk"):
                    df = b.run_scenarios(scenarios=[scen], scenario_managers=["smR"], equations=list(eqs), return_format="df")
                    return {(c.split("_")[-1] if c.startswith("smR_") else c): {float(t): float(v) for t, v in df[c].items()} for c in df.columns}
            union = {}
            for i in range(5):
                eqs = rng.choice(lists)
                fr = run(eqs)
                counters["stochastic_reruns"] = counters.get("stochastic_reruns", 0) + 1
                for e, series in fr.items():
                    if e in union and union[e] != series:
                        return dict(kind="rerun-differs", via=via, equation=e, run=i, equations=eqs, first=union[e], now=series)
                    union.setdefault(e, series)
                w = judge_frame(union, [])
                if w is None and "k" in union and "k2" in union:
                    for t in union["k"]:
                        if abs(union["k2"][t] - 2.0 * union["k"][t]) > 1e-9:
                            w = dict(kind="ambiguous", identity="k2 == 2*k (k overridden by a stochastic expression)", t=t, k=union["k"][t], k2=union["k2"][t])
                            break
                if w is not None:
                    w.update(via=via, run=i, equations=eqs, note="identity over the union of the frames reported so far")
                    return w
        finally:
            if b is not None:
                b.destroy()
    return None


# ---------------------------------------------------------------- part C
def one_edit_run(edit, ev, schedule):
    """Thread 0 evaluates, thread 1 edits; afterwards (both done) the model must equal a fresh build with the final definitions."""
    import threading
    from BPTK_Py.modeling.model import Model
    from vlib.linesched import LineScheduler, all_code_objects
    defs = defs0()
    m = build(defs)
    m.evaluate_equation("f", 1.0)        # part of the memo is filled before the race
    errors = []

    def evaluator():
        try:
            if ev == "y@3":
                m.evaluate_equation("y", 3.0)
            elif ev == "f@2+v@1":
                m.memoize("f", 2.0)
                m.equation("v", 1.0)
                m.evaluate_equation("s", 4.0)
            else:
                m.converters["y"].plot(return_df=True)
        except Exception as e:       # an evaluation that fails because definitions change under it is not what is judged
            errors.append(repr(e)[:120])

    def editor():
        for part in edit.split("+"):
            if part == "reset":
                m.reset_cache()
            elif part == "c7":
                defs["c"] = 7.0
                apply_defs(m, defs, only="c")
            elif part in ("v1", "v2"):
                defs["v"] = int(part[1])
                apply_defs(m, defs, only="v")
            elif part == "f1":
                defs["f"] = 1
                apply_defs(m, defs, only="f")
            elif part == "s1":
                defs["s"] = 1
                apply_defs(m, defs, only="s")
            elif part == "i100":
                defs["init"] = ("num", 100.0)
                apply_defs(m, defs, only="init")
    codes = all_code_objects(Model.memoize)
    sched = LineScheduler(codes, expected=2, schedule=schedule)
    with sched:
        ts = [threading.Thread(target=evaluator), threading.Thread(target=editor)]
        for t in ts:
            t.start()
        for t in ts:
            t.join(30)
    got = snapshot(m, route=1)
    exp = snapshot(build(defs))
    return got, exp, sched, errors


def run_edit_sched_case(case, counters):
    from vlib.linesched import alternatives
    nts = []

    def attempt(schedule):
        got, exp, sched, errors = one_edit_run(case["edit"], case["ev"], schedule)
        counters["edit_schedules"] = counters.get("edit_schedules", 0) + 1
        counters["grid_comparisons"] = counters.get("grid_comparisons", 0) + 25
        if sched.stuck:
            return "stuck", dict(kind="stuck", why=sched.stuck, schedule=schedule), sched
        if sched.preemptions_applied:
            counters["edit_schedules_with_preemption"] = counters.get("edit_schedules_with_preemption", 0) + 1
            nts.append("edit-sched:%s:%s:%r" % (case["edit"], case["ev"], schedule))
        if got != exp:
            bad = next(n for n in got if got[n] != exp[n])
            return "violated", dict(kind="stale-after-concurrent-edit", edit=case["edit"], evaluation=case["ev"], element=bad, got=got[bad], expected=exp[bad],
                                    schedule=schedule, evaluator_errors=errors), sched
        return "held", None, sched
    st, w, base = attempt([])
    if st != "held":
        return st, w, nts
    alts = alternatives(base.trace)
    mine = [a for i, a in enumerate(alts) if i % case["K"] == case["stride"]]
    for (d, t) in mine:
        st, w, s1 = attempt([(d, t)])
        if st != "held":
            return st, w, nts
        if case["depth"] >= 2:
            for (d2, t2) in alternatives(s1.trace):
                if d2 <= d:
                    continue
                st, w, _ = attempt([(d, t), (d2, t2)])
                if st != "held":
                    return st, w, nts
    return "held", None, nts


def run_case(case):
    counters = {}
    k = case["kind"]
    if k == "stochastic-rerun":
        w = run_stochastic_rerun(case["seed"], counters)
        if w is not None:
            return dict(verdict="violated", counters=counters, mech=w["kind"] + ":stochastic-rerun", witness=w)
        return dict(verdict="held", counters=counters, sample=dict(case=case))
    if k == "edit-sched":
        st, w, nts = run_edit_sched_case(case, counters)
        if st == "violated":
            return dict(verdict="violated", nt=nts, counters=counters, mech="stale:concurrent-edit", witness=w)
        if st == "stuck":
            return dict(verdict="inconclusive", counters=counters, witness=w)
        return dict(verdict="held", nt=nts, counters=counters, sample=dict(case=case))
    if k in ("enum", "random", "enum4"):
        n = len(OPS)
        seqs = [case["seq"]] if k == "random" else \
            [[case["first"], x // (n * n), (x // n) % n, x % n] for x in case["tails"]] if k == "enum4" else \
            [[case["first"]] + list(t) for L in range(case["L"]) for t in itertools.product(range(len(OPS)), repeat=L)]
        nts = []
        for si, seq in enumerate(seqs):
            # three observation modes; the longest enumerated sequences alternate between the two per-operation modes
            modes = (True, False, 2) if (k == "random" or len(seq) < 3) else ((True, False) if si % 2 else (2, False))
            for every in modes:
                counters["histories"] = counters.get("histories", 0) + 1
                w, interesting = run_history(seq, every, counters)
                if interesting:
                    nts.append("hist:" + ",".join(map(str, seq)))
                if w is not None:
                    return dict(verdict="violated", nt=nts, counters=counters, mech="stale:" + w["after"][-1], witness=w)
        return dict(verdict="held", nt=nts, counters=counters, sample=dict(case=case))
    if k == "scenario":
        w = run_scenario_case(case["seed"], counters)
        if w is not None:
            return dict(verdict="violated", counters=counters, mech=w["kind"], witness=w)
        return dict(verdict="held", counters=counters, sample=dict(case=case))
    if k == "sched":
        st, w, nts = run_sched_case(case, counters)
        if st == "violated":
            return dict(verdict="violated", nt=nts, counters=counters, mech="ambiguous:memo-race", witness=w)
        if st == "stuck":
            return dict(verdict="inconclusive", counters=counters, witness=w)
        return dict(verdict="held", nt=nts, counters=counters, sample=dict(case=case))
    if k == "stress":
        eqs = EQ_LISTS[case["eqs"]]
        for i in range(case["runs"]):
            frame, events, _ = one_run(eqs, None)
            counters["stress_runs"] = counters.get("stress_runs", 0) + 1
            w = judge_frame(frame, events)
            if w is not None:
                w.update(equations=eqs, unscheduled=True)
                return dict(verdict="violated", counters=counters, mech="ambiguous:memo-race", witness=w)
        return dict(verdict="held", counters=counters, sample=dict(case=case))
