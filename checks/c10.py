"""C10 - arrayed equations compute what the same numpy operation computes.

Oracle: numpy.  Outcome classes per case: accepted+equal (held), rejected
(exception anywhere from construction to evaluation; allowed), accepted with a
different value or shape (violation), mismatching shapes / index names accepted
with values (violation).  Monitor: sys.monitoring LINE coverage of the
dimension rules (DotOperator.term/resolve_dimensions, _handle_arrayed)."""
import itertools
import random
import sys

import numpy as np

ID = "C10"
LEVEL = "exploration"
TECHNIQUE = "numpy differential over all shapes <=3x3 / vectors <=4 with LINE-coverage monitor of the dimension rules"
RULE = ("shapes: vectors 1-4, matrices r x c with r,c in 1..3 (13 shapes). elementwise + - * /: all 169 shape pairs x element kinds "
        "(converter/constant/stock) + array-scalar and scalar-array forms + named vectors/matrices (matching and mismatching names); "
        "dot: all 169 shape pairs; aggregates sum prod mean median stddev rank size on every shape; nested two-operator forms; dot products whose operand is an arrayed expression, arrays combined with scalar dot products, aggregates over clamped flows / stocks with rates / re-assigned entries, matrices re-dimensioned after a first use; vector dot products of all 16 length pairs under 11 scalar wrappers (abs max min ** > If round neg + * sqrt); "
        "second uses (literal members after an arrayed equation; member changes after a rejected mismatching equation in the same model); arrayed stocks fed by arrayed expressions of time-varying members (two Euler steps); named stocks fed by named expressions / flows with another name order or other names; results read through element[i](t), element[i][j](t) and plot(return_df). value draws: 2 (quick) / 6 (thorough) incl. negatives. "
        "distinct_nontrivial = distinct (form, shapes, kinds) combinations that were accepted and whose numpy result has at least two "
        "different entries (or is a scalar aggregate of >=2 different entries).")
ASSUMPTIONS = ["arr_size is judged on vectors only (for a matrix the library documents 'number of rows', numpy .size is rows*cols: ambiguous)",
               "an exception anywhere between construction and evaluation is 'rejected', allowed by the property for supported and unsupported forms alike"]
REQUIRED = {"aggregates_inside_arrays_compared": 20, "shrunk_arrays_compared": 5, "late_initial_values": 5, "second_use_entries": 20, "named_stock_entries": 15, "arrayed_stock_entries_over_time": 30, "accepted_equal": 300, "rejected_mismatch": 100, "entries_compared": 2000}
BUDGET_S = {"quick": 100, "thorough": 1200}

VEC = [(n,) for n in (1, 2, 3, 4)]
MAT = [(r, c) for r in (1, 2, 3) for c in (1, 2, 3)]
SHAPES = VEC + MAT
OPS = {"+": np.add, "-": np.subtract, "*": np.multiply, "/": np.divide}
AGGS = ["sum", "prod", "mean", "median", "stddev", "rank", "size"]
KINDS = ["converter", "constant", "stock"]
DOTEXPR = ["M.dot(A+B)", "M.dot((A+B)*2.0)", "(A+B).dot(C)", "A.dot(B+C)", "M.dot(A-B)", "M.dot(A*B)", "V - A.dot(B)", "V + A.dot(B)", "W - A.dot(B)",
           "A.dot(B) - V", "V * A.dot(B)", "M.dot(N+N)", "(M+M).dot(A)",
           # a matrix combined element-wise with a vector-valued dot product: numpy broadcasts (2,2) with (2,) along the last axis and rejects (2,3) with (2,)
           "W - M.dot(A)", "W + M.dot(A)", "W * M.dot(A)", "W / M.dot(A)", "X - M.dot(A)", "X + M.dot(A)", "X * M.dot(A)", "X / M.dot(A)", "M.dot(A) - X", "V - M.dot(A)", "X - X.dot(C3)"]
STOCK_TV = ["M.dot(A+T)", "A.dot(N+TN)", "M.dot(N+TN)", "A+T", "A*T", "M.dot(A)", "(A-T)*2.0", "M.dot(2.0*T)", "N.dot(TN)", "A/(T+10.0)"]
SECOND_USE = ["member-literal-after-equation", "setup_vector-after-equation", "setup_matrix-after-dot", "member-change-after-rejected-dot", "member-change-after-rejected-sum",
              "member-literal-after-element-equation"]
NAMED_STOCK = ["NB-NA", "flow:NB/NA", "NA+NB", "flow:NA*NB", "mismatch:flow", "mismatch:indexed", "same-order:NA-NA2"]
WRAPPERS = ["abs", "max0", "min9", "pow2", "gt0", "if", "round", "neg", "plus", "times", "sqrtabs"]


def wrap_np(w, x):
    import math
    return {"abs": abs(x), "max0": max(x, 0.0), "min9": min(x, 9.0), "pow2": x ** 2, "gt0": float(x > 0.0), "if": x, "round": round(x, 1),
            "neg": -x, "plus": x + 1.5, "times": 2.0 * x, "sqrtabs": math.sqrt(abs(x) + 1.0)}[w]


def wrap_dsl(w, x):
    import BPTK_Py.sddsl.functions as F
    if w == "abs":
        return F.abs(x)
    if w == "max0":
        return F.max(x, 0.0)
    if w == "min9":
        return F.min(x, 9.0)
    if w == "pow2":
        return x ** 2
    if w == "gt0":
        return x > 0.0
    if w == "if":
        return F.If(F.time() >= 0.0, x, 0.0)
    if w == "round":
        return F.round(x, 1)
    if w == "neg":
        return -x
    if w == "plus":
        return x + 1.5
    if w == "times":
        return 2.0 * x
    if w == "sqrtabs":
        return F.sqrt(F.abs(x) + 1.0)
    raise KeyError(w)


def gen_cases(tier, seed):
    draws = 2 if tier == "quick" else 6
    cases = []
    for d in range(draws):
        for op in OPS:
            for i, s1 in enumerate(SHAPES):
                for j, s2 in enumerate(SHAPES):
                    k1, k2 = KINDS[(i + j + d) % 3], KINDS[(i + 2 * j + d + 1) % 3]
                    cases.append(dict(form="elem", op=op, s1=list(s1), s2=list(s2), k1=k1, k2=k2, draw=d, res="converter" if (i + j) % 4 else "stock"))
            for i, s1 in enumerate(SHAPES):
                for sc in ("float", "constant", "converter"):
                    cases.append(dict(form="arr_scalar", op=op, s1=list(s1), k1=KINDS[i % 3], scalar=sc, draw=d))
                    cases.append(dict(form="scalar_arr", op=op, s1=list(s1), k1=KINDS[i % 3], scalar=sc, draw=d))
            # named
            for names1, names2 in ((["x", "y"], ["x", "y"]), (["x", "y"], ["y", "x"]), (["x", "y"], ["x", "z"]), (["x", "y", "z"], ["x", "y"])):
                cases.append(dict(form="named", op=op, n1=names1, n2=names2, draw=d))
            cases.append(dict(form="named_matrix", op=op, same=True, draw=d))
            cases.append(dict(form="named_matrix", op=op, same=False, draw=d))
            cases.append(dict(form="named_vs_indexed", op=op, draw=d))
        for i, s1 in enumerate(SHAPES):
            for j, s2 in enumerate(SHAPES):
                cases.append(dict(form="dot", s1=list(s1), s2=list(s2), k1=KINDS[(i + d) % 3], k2=KINDS[(j + d + 1) % 3], draw=d))
        # a dot product nested under a scalar wrapper: the size rules must hold there, too
        for w in WRAPPERS:
            for n1 in (1, 2, 3, 4):
                for n2 in (1, 2, 3, 4):
                    cases.append(dict(form="dot_nested", wrapper=w, s1=[n1], s2=[n2], draw=d))
            for op in OPS:
                for s1 in ((3,), (2, 2)):
                    cases.append(dict(form="elem_nested", wrapper=w, op=op, s1=list(s1), draw=d))
            for (s1, s2) in (((2, 3), (3,)), ((2, 3), (2,)), ((3,), (3, 2)), ((2,), (3, 2))):
                cases.append(dict(form="dot_nested_mv", wrapper=w, s1=list(s1), s2=list(s2), draw=d))
        # a dot product whose operand is itself an arrayed expression; an array minus / plus a scalar dot product
        for tmpl in DOTEXPR:
            cases.append(dict(form="dot_expr", tmpl=tmpl, draw=d))
        # aggregates over flows (clamped at zero), over stocks that have a numeric equation, and over an entry re-assigned later
        for agg in AGGS:
            for variant in ("flow_negative", "stock_rate", "reassigned"):
                cases.append(dict(form="agg_variant", agg=agg, variant=variant, rank=2 if agg == "rank" else None, draw=d))
        # an array that is re-dimensioned after it has been used once
        for tmpl in ("redim_dot_ok", "redim_dot_mismatch", "redim_rank", "redim_sum"):
            cases.append(dict(form="redim", tmpl=tmpl, draw=d))
        # arrayed STOCKS whose equation is an arrayed expression of time-varying members (two Euler steps)
        for tmpl in STOCK_TV:
            cases.append(dict(form="stock_tv", tmpl=tmpl, draw=d))
            # ... and the initial value of the LAST member is set after the equation was assigned
            cases.append(dict(form="stock_tv", tmpl=tmpl, draw=d, late_init=True))
        # named arrayed stocks fed by named expressions / flows whose names come in another order, or do not match
        for tmpl in NAMED_STOCK:
            cases.append(dict(form="named_stock", tmpl=tmpl, draw=d))
        # second use of an arrayed element: the target of an arrayed equation is given literal members again; members change after a
        # mismatching equation was rejected in the same model
        for tmpl in SECOND_USE:
            cases.append(dict(form="second_use", tmpl=tmpl, draw=d))
        for tmpl in SHRINK:
            cases.append(dict(form="shrink", tmpl=tmpl, draw=d))
        for tmpl in AGG_IN_ARRAY:
            for agg in ("sum", "prod", "mean", "median", "stddev"):
                for shape in ([3], [2, 3]):
                    cases.append(dict(form="agg_in_array", tmpl=tmpl, agg=agg, shape=shape, draw=d))
        for s1 in SHAPES:
            for agg in AGGS:
                ranks = [-1, 1, 2, 99] if agg == "rank" else [None]
                for r in ranks:
                    cases.append(dict(form="agg", agg=agg, s1=list(s1), k1=KINDS[d % 3], rank=r, draw=d))
        for op1, op2 in itertools.product(OPS, OPS):
            for s1 in ((3,), (2, 2)):
                for shape in ("(A o B) p C", "A o (B p C)", "A o (B p s)", "(A o s) p B"):
                    cases.append(dict(form="nested", op=op1, op2=op2, s1=list(s1), tmpl=shape, draw=d))
    rng = random.Random(seed)
    rng.shuffle(cases)
    return cases


def EXHAUSTIVE(tier):
    return True  # exhaustive in shape/form, sampled in value


_cov = {"lines": set(), "on": False, "codes": {}}


def worker_init():
    try:
        import BPTK_Py.sddsl.operators as O
        import BPTK_Py.sddsl.element as EL
        mon = sys.monitoring
        tool = 4
        mon.use_tool_id(tool, "c10cov")
        targets = {"DotOperator.term": O.DotOperator.term, "DotOperator.resolve_dimensions": O.DotOperator.resolve_dimensions,
                   "Element._handle_arrayed": EL.Element._handle_arrayed, "BinaryOperator.__init__": O.BinaryOperator.__init__}
        for nm, fn in targets.items():
            code = fn.__code__
            _cov["codes"][code] = nm
            mon.set_local_events(tool, code, mon.events.LINE)
            # nested helper functions
            for c in code.co_consts:
                if hasattr(c, "co_code"):
                    _cov["codes"][c] = nm
                    mon.set_local_events(tool, c, mon.events.LINE)

        def on_line(code, line):
            nm = _cov["codes"].get(code)
            if nm:
                _cov["lines"].add((nm, line))
            return mon.DISABLE
        mon.register_callback(tool, mon.events.LINE, on_line)
        _cov["on"] = True
    except Exception:
        _cov["on"] = False


def values(shape, draw, salt):
    rng = random.Random(hash((tuple(shape), draw, salt)) & 0xffffffff)
    pool = [1.0, 2.0, -3.0, 0.5, 4.0, -1.5, 7.0, 2.5, -0.25, 6.0, 3.0, 9.0]
    n = int(np.prod(shape))
    v = [rng.choice(pool) + (rng.randint(0, 3) * 0.125 if draw else 0) for _ in range(n)]
    return np.array(v, dtype=float).reshape(shape)


def make_el(m, kind, name, arr):
    el = {"converter": m.converter, "constant": m.constant, "stock": m.stock}[kind](name)
    if arr.ndim == 1:
        el.setup_vector(arr.shape[0], [float(x) for x in arr])
    else:
        el.setup_matrix(list(arr.shape), [[float(x) for x in row] for row in arr])
    return el


def read(res, shape, t):
    if shape == ():
        return np.array(float(res(t)))
    if len(shape) == 1:
        if res._elements.vector_size() != shape[0]:
            raise ShapeMismatch("result has %d entries, numpy %r" % (res._elements.vector_size(), shape))
        return np.array([float(res[i](t)) for i in range(shape[0])])
    if res._elements.vector_size() != shape[0] or any(res[i]._elements.vector_size() != shape[1] for i in range(shape[0])):
        raise ShapeMismatch("result shape differs from numpy %r" % (shape,))
    return np.array([[float(res[i][j](t)) for j in range(shape[1])] for i in range(shape[0])])


class ShapeMismatch(Exception):
    pass


def run_stock_tv(case):
    """Vector / matrix stocks whose equation is an arrayed expression over members that move with time: after two Euler steps
    (dt=1 from t=0) every entry must be 1 + expr(0) + expr(1) as numpy computes it."""
    from BPTK_Py import Model
    import BPTK_Py.sddsl.functions as F
    d = case["draw"]
    m = Model(starttime=0.0, stoptime=3.0, dt=1.0, name="arrtv")
    base = dict(A=values([2], d, 41), T=values([2], d, 42), M=values([2, 2], d, 43), N=values([2, 2], d, 44), TN=values([2, 2], d, 45))
    slope = dict(A=values([2], d, 46), T=values([2], d, 47), M=np.zeros((2, 2)), N=values([2, 2], d, 48), TN=values([2, 2], d, 49))

    def at(t):
        return {k: base[k] + slope[k] * t for k in base}
    tmpl = case["tmpl"]
    pyexpr = tmpl.replace(".dot(", "@(")
    with np.errstate(all="ignore"):
        e0, e1 = eval(pyexpr, {}, at(0.0)), eval(pyexpr, {}, at(1.0))
    expected = 1.0 + np.asarray(e0, dtype=float) + np.asarray(e1, dtype=float)
    counters = {}
    try:
        E = {}
        for k in base:
            el = m.converter(k)
            if base[k].ndim == 1:
                el.setup_vector(2, [0.0, 0.0])
                for i in range(2):
                    el[i].equation = float(base[k][i]) + F.time() * float(slope[k][i])
            else:
                el.setup_matrix([2, 2], [[0.0, 0.0], [0.0, 0.0]])
                for i in range(2):
                    for j in range(2):
                        el[i][j].equation = float(base[k][i][j]) + F.time() * float(slope[k][i][j])
            E[k] = el
        res = m.stock("S")
        if expected.ndim == 1:
            res.setup_vector(2, [1.0, 1.0])
        else:
            res.setup_matrix([2, 2], [[1.0, 1.0], [1.0, 1.0]])
        res.equation = eval(tmpl, {}, E)
        if case.get("late_init"):
            if expected.ndim == 1:
                res[1].initial_value = 3.5
                expected[1] += 2.5
            else:
                res[1][1].initial_value = 3.5
                expected[1][1] += 2.5
            counters["late_initial_values"] = 1
        got = read(res, expected.shape, 2.0)
    except ShapeMismatch as e:
        return dict(verdict="violated", counters=counters, mech="shape", witness=dict(case=case, error=str(e)))
    except Exception as e:
        counters["rejected_supported"] = 1
        return dict(verdict="rejected", counters=counters, sample=dict(case=case, why="%s: %s" % (type(e).__name__, str(e)[:100])))
    counters["entries_compared"] = int(expected.size)
    counters["arrayed_stock_entries_over_time"] = int(expected.size)
    if not np.allclose(got, expected, rtol=1e-9, atol=1e-12):
        return dict(verdict="violated", counters=counters, mech="value:stock_tv", witness=dict(case=case, expected=expected.tolist(), got=got.tolist()))
    counters["accepted_equal"] = 1
    return dict(verdict="held", nt="stock_tv:" + tmpl, counters=counters)


def run_second_use(case):
    """An arrayed element that is used a second time: literal members after it was the target of an arrayed equation; operand members
    changed after a mismatching arrayed equation was rejected in the same model. Results must be numpy's for the CURRENT members."""
    from BPTK_Py import Model
    m = Model(starttime=0.0, stoptime=3.0, dt=1.0, name="arr2")
    d = case["draw"]
    A, B = values([2], d, 61), values([2], d, 62)
    M, N = values([2, 2], d, 63), values([2, 2], d, 64)
    a, b = make_el(m, "converter", "A", A), make_el(m, "converter", "B", B)
    mm, nn = make_el(m, "converter", "M", M), make_el(m, "converter", "N", N)
    tmpl = case["tmpl"]
    counters = {}
    try:
        if tmpl in ("member-literal-after-equation", "setup_vector-after-equation", "member-literal-after-element-equation"):
            R = m.converter("R")
            R.equation = (a + b) if tmpl != "member-literal-after-element-equation" else a
            first = read(R, (2,), 0.0)
            if tmpl == "setup_vector-after-equation":
                R.setup_vector(2, [1.5, -2.0])
                cur = np.array([1.5, -2.0])
            else:
                R[1] = 7.25
                cur = np.array([(A + B)[0] if tmpl != "member-literal-after-element-equation" else A[0], 7.25])
            out = m.converter("out")
            out.equation = R + b
            tot = m.converter("tot")
            tot.equation = R.arr_sum()
            expected = np.concatenate([cur + B, [cur.sum()]])
            got = np.concatenate([read(out, (2,), 0.0), [float(tot(0.0))]])
        elif tmpl == "setup_matrix-after-dot":
            P = m.converter("P")
            P.equation = mm.dot(nn)
            first = read(P, (2, 2), 0.0)
            lit = [[1.0, 2.0], [3.0, 4.5]]
            P.setup_matrix([2, 2], lit)
            out = m.converter("out")
            out.equation = P + mm
            expected = (np.array(lit) + M).flatten()
            got = read(out, (2, 2), 0.0).flatten()
        else:
            R = m.converter("R")
            R.equation = a + b
            D2 = m.converter("D2")
            D2.equation = mm.dot(a)
            tot = m.converter("tot")
            tot.equation = a.arr_sum()
            first = (read(R, (2,), 0.0), read(D2, (2,), 0.0), float(tot(0.0)))
            X3 = make_el(m, "converter", "X3", values([2, 3], d, 65))
            Z = m.converter("Z")
            try:
                if tmpl == "member-change-after-rejected-dot":
                    Z.equation = X3.dot(a)             # (2,3).(2,): numpy rejects, the DSL must reject
                else:
                    Z.equation = X3 + mm               # (2,3) + (2,2)
                return dict(verdict="violated", counters=counters, mech="mismatch-accepted", witness=dict(case=case))
            except Exception:
                counters["rejected_mismatch"] = 1
            again = read(R, (2,), 0.0)
            a[0] = 11.5
            a[1] = -4.25
            Anew = np.array([11.5, -4.25])
            expected = np.concatenate([Anew + B, M.dot(Anew), [Anew.sum()]])
            got = np.concatenate([read(R, (2,), 0.0), read(D2, (2,), 0.0), [float(tot(0.0))]])
    except Exception as e:
        counters["rejected_supported"] = 1
        return dict(verdict="rejected", counters=counters, sample=dict(case=case, why="%s: %s" % (type(e).__name__, str(e)[:100])))
    counters["entries_compared"] = int(expected.size)
    counters["second_use_entries"] = int(expected.size)
    if not np.allclose(got, expected, rtol=1e-9, atol=1e-12):
        return dict(verdict="violated", counters=counters, mech="value:second_use", witness=dict(case=case, expected=expected.tolist(), got=got.tolist()))
    counters["accepted_equal"] = 1
    return dict(verdict="held", nt="second_use:" + tmpl, counters=counters)


def run_named_stock(case):
    """A named arrayed stock fed by a named expression / flow: entries are paired BY NAME (whatever the order in which the operands
    declare their names); names that do not match are rejected."""
    from BPTK_Py import Model
    m = Model(starttime=0.0, stoptime=3.0, dt=1.0, name="arrnamed")
    d = case["draw"]
    va = {"north": 2.0 + d, "south": 3.5, "west": -1.0}
    vb = {"west": 10.0, "north": 4.0, "south": 0.5 + d}          # another declaration order
    NA, NB, NA2 = m.converter("NA"), m.converter("NB"), m.converter("NA2")
    NA.setup_named_vector(dict(va))
    NB.setup_named_vector(dict(vb))
    NA2.setup_named_vector({"north": 1.0, "south": 1.0, "west": 1.0})
    S = m.stock("S")
    S.setup_named_vector({"north": 1.0, "south": 1.0, "west": 1.0})
    tmpl = case["tmpl"]
    counters = {}
    ops = {"NB-NA": lambda a, b: b - a, "NB/NA": lambda a, b: b / a, "NA+NB": lambda a, b: a + b, "NA*NB": lambda a, b: a * b}
    expected = None
    try:
        if tmpl.startswith("mismatch"):
            if tmpl == "mismatch:flow":
                fl = m.flow("fl")
                fl.setup_named_vector({"north": 1.0, "south": 2.0, "east": 3.0})
                S.equation = fl
            else:
                ix = m.converter("ix")
                ix.setup_vector(3, [1.0, 2.0, 3.0])
                S.equation = ix + ix
        elif tmpl == "same-order:NA-NA2":
            S.equation = NA - NA2
            expected = {n: 1.0 + 2 * (va[n] - 1.0) for n in va}
        else:
            name = tmpl.split(":")[-1]
            dsl = {"NB-NA": lambda: NB - NA, "NB/NA": lambda: NB / NA, "NA+NB": lambda: NA + NB, "NA*NB": lambda: NA * NB}[name]()
            if tmpl.startswith("flow:"):
                fl = m.flow("fl")
                fl.setup_named_vector({"west": 0.0, "north": 0.0, "south": 0.0})
                fl.equation = dsl
                S.equation = fl
                expected = {n: 1.0 + 2 * max(0.0, ops[name](va[n], vb[n])) for n in va}
            else:
                S.equation = dsl
                expected = {n: 1.0 + 2 * ops[name](va[n], vb[n]) for n in va}
        got = {n: float(S[n](2.0)) for n in ("north", "south", "west")}
    except Exception as e:
        counters["rejected_mismatch" if expected is None else "rejected_supported"] = 1
        return dict(verdict="rejected", counters=counters, sample=dict(case=case, why="%s: %s" % (type(e).__name__, str(e)[:100])))
    if expected is None:
        return dict(verdict="violated", counters=counters, mech="mismatch-accepted", witness=dict(case=case, got=got))
    counters["entries_compared"] = 3
    counters["named_stock_entries"] = 3
    if any(abs(got[n] - expected[n]) > 1e-9 * max(1.0, abs(expected[n])) for n in expected):
        return dict(verdict="violated", counters=counters, mech="value:named_stock", witness=dict(case=case, expected=expected, got=got))
    counters["accepted_equal"] = 1
    return dict(verdict="held", nt="named_stock:" + tmpl, counters=counters)


AGG_IN_ARRAY = ["A - g(A)", "A / g(B)", "g(A) * B", "(A + B) - g(A)", "A - (g(A) + g(B))", "A * 2.0 - g(B)"]


def run_agg_in_array(case):
    """An aggregate (a single value) as an operand inside an element-wise expression: every entry uses the aggregate numpy computes."""
    from BPTK_Py import Model
    d = case["draw"]
    m = Model(starttime=0.0, stoptime=3.0, dt=1.0, name="agginarr")
    shape = case["shape"]
    A, B = values(shape, d, 71), values(shape, d, 72)
    A.flat[0] += 3.25          # no symmetric data: mean, median and the rest all differ
    B.flat[-1] -= 2.5
    B = np.where(np.abs(B) < 0.2, 1.5, B)
    fn = {"sum": np.sum, "prod": np.prod, "mean": np.mean, "median": np.median, "stddev": np.std}[case["agg"]]
    if abs(fn(B)) < 1e-3:
        return dict(verdict="illcond", counters={"illcond": 1})
    expected = np.asarray(eval(case["tmpl"], {}, dict(A=A, B=B, g=fn)), dtype=float)
    counters = {"aggregates_inside_arrays": 1}
    try:
        a, b = make_el(m, "converter", "a", A), make_el(m, "converter", "b", B)
        res = m.converter("res")
        res.equation = eval(case["tmpl"], {}, dict(A=a, B=b, g=lambda el: getattr(el, "arr_" + case["agg"])()))
        got = read(res, expected.shape, 1.0)
    except ShapeMismatch as e:
        return dict(verdict="violated", counters=counters, mech="shape:agg_in_array", witness=dict(case=case, error=str(e)))
    except Exception as e:
        counters["rejected_supported"] = 1
        return dict(verdict="rejected", counters=counters, sample=dict(case=case, why="%s: %s" % (type(e).__name__, str(e)[:100])))
    counters["entries_compared"] = int(expected.size)
    counters["aggregates_inside_arrays_compared"] = 1
    if not np.allclose(got, expected, rtol=1e-9, atol=1e-12):
        return dict(verdict="violated", counters=counters, mech="value:agg_in_array:" + case["agg"], witness=dict(case=case, expected=expected.tolist(), got=got.tolist()))
    counters["accepted_equal"] = 1
    return dict(verdict="held", nt="agg_in_array:%s:%s" % (case["agg"], case["tmpl"]), counters=counters)


SHRINK = ["reassign_smaller_sum", "reassign_smaller_entries", "setup_smaller_sum", "matrix_fewer_columns_sum", "vector_over_matrix_sum",
          "stock_smaller_expr", "stock_larger_expr", "stock_matrix_other_shape"]


def run_shrink(case):
    """An arrayed element that is given a SMALLER array than it held before (numpy: the new array replaces the old one), and a dimensioned
    arrayed stock that is given an expression of another size (numpy: shapes do not match - no result)."""
    from BPTK_Py import Model
    d = case["draw"]
    m = Model(starttime=0.0, stoptime=3.0, dt=1.0, name="shrink")
    A3, B3, A2, B2 = values([3], d, 61), values([3], d, 62), values([2], d, 63), values([2], d, 64)
    M23, N23, M22 = values([2, 3], d, 65), values([2, 3], d, 66), values([2, 2], d, 67)
    a3, b3, a2, b2 = make_el(m, "converter", "a3", A3), make_el(m, "converter", "b3", B3), make_el(m, "converter", "a2", A2), make_el(m, "converter", "b2", B2)
    tmpl = case["tmpl"]
    counters = {"shrink_forms": 1}
    expected, must_reject = None, False
    try:
        if tmpl in ("reassign_smaller_sum", "reassign_smaller_entries"):
            c = m.converter("c")
            c.equation = a3 + b3
            _ = float(c[2](0.0))
            c.equation = a2 + b2
            if tmpl.endswith("sum"):
                s_ = m.converter("s_")
                s_.equation = c.arr_sum()
                got, expected = np.array(float(s_(1.0))), np.array(float(np.sum(A2 + B2)))
            else:
                expected = A2 + B2
                got = read(c, expected.shape, 1.0)
        elif tmpl == "setup_smaller_sum":
            c = m.converter("c")
            c.setup_vector(3, [float(x) for x in A3])
            c.setup_vector(2, [float(x) for x in A2])
            s_ = m.converter("s_")
            s_.equation = c.arr_sum()
            got, expected = np.array(float(s_(1.0))), np.array(float(np.sum(A2)))
        elif tmpl == "matrix_fewer_columns_sum":
            c = m.converter("c")
            c.setup_matrix([2, 3], [[float(x) for x in r] for r in M23])
            c.setup_matrix([2, 2], [[float(x) for x in r] for r in M22])
            s_ = m.converter("s_")
            s_.equation = c.arr_sum()
            got, expected = np.array(float(s_(1.0))), np.array(float(np.sum(M22)))
        elif tmpl == "vector_over_matrix_sum":
            mm, nn = make_el(m, "converter", "mm", M23), make_el(m, "converter", "nn", N23)
            c = m.converter("c")
            c.equation = mm + nn
            c.equation = a2 + b2
            expected = A2 + B2
            got = read(c, expected.shape, 1.0)
        else:
            must_reject = True
            S = m.stock("S")
            if tmpl == "stock_smaller_expr":
                S.setup_vector(3, [0.0, 0.0, 0.0])
                S.equation = a2 + b2
                got = [float(S[i](2.0)) for i in range(3)]
            elif tmpl == "stock_larger_expr":
                S.setup_vector(2, [0.0, 0.0])
                S.equation = a3 + b3
                got = [float(S[i](2.0)) for i in range(2)]
            else:
                mm, nn = make_el(m, "converter", "mm", M23), make_el(m, "converter", "nn", N23)
                S.setup_matrix([2, 2], [[0.0, 0.0], [0.0, 0.0]])
                S.equation = mm + nn
                got = [[float(S[i][j](2.0)) for j in range(2)] for i in range(2)]
    except ShapeMismatch as e:
        return dict(verdict="violated", counters=counters, mech="shape:shrink", witness=dict(case=case, error=str(e)))
    except Exception as e:
        if must_reject:
            counters["rejected_mismatch"] = 1
            return dict(verdict="rejected", counters=counters, sample=dict(case=case, why="%s: %s" % (type(e).__name__, str(e)[:100])))
        counters["rejected_supported"] = 1
        return dict(verdict="rejected", counters=counters, sample=dict(case=case, why="%s: %s" % (type(e).__name__, str(e)[:100])))
    if must_reject:
        return dict(verdict="violated", counters=counters, mech="mismatch-accepted:stock", witness=dict(case=case, got=got))
    counters["entries_compared"] = int(np.asarray(expected).size)
    counters["shrunk_arrays_compared"] = 1
    if not np.allclose(got, expected, rtol=1e-9, atol=1e-12):
        return dict(verdict="violated", counters=counters, mech="value:stale-members-after-shrinking", witness=dict(case=case, expected=np.asarray(expected).tolist(), got=np.asarray(got).tolist()))
    counters["accepted_equal"] = 1
    return dict(verdict="held", nt="shrink:" + tmpl, counters=counters)


def run_case(case):
    from BPTK_Py import Model
    if case["form"] == "shrink":
        return run_shrink(case)
    if case["form"] == "agg_in_array":
        return run_agg_in_array(case)
    if case["form"] == "stock_tv":
        return run_stock_tv(case)
    if case["form"] == "named_stock":
        return run_named_stock(case)
    if case["form"] == "second_use":
        return run_second_use(case)
    counters = {}
    before = len(_cov["lines"])
    m = Model(starttime=0.0, stoptime=3.0, dt=1.0, name="arr")
    form = case["form"]
    d = case["draw"]
    expected = None       # numpy value, or None when numpy itself rejects (mismatch)
    judged = True
    t = 0.0
    key = None
    try:
        # ---------- reference ----------
        if form == "elem":
            A, B = values(case["s1"], d, 1), values(case["s2"], d, 2)
            if case["op"] == "/":
                B = np.where(np.abs(B) < 0.2, 1.5, B)
            expected = OPS[case["op"]](A, B) if A.shape == B.shape else None
            key = ("elem", case["op"], tuple(case["s1"]), tuple(case["s2"]), case["k1"], case["k2"], case["res"])
        elif form in ("arr_scalar", "scalar_arr"):
            A = values(case["s1"], d, 3)
            s = 2.5 if d % 2 == 0 else -1.5
            if case["op"] == "/" and form == "scalar_arr":
                A = np.where(np.abs(A) < 0.2, 1.5, A)
            expected = OPS[case["op"]](A, s) if form == "arr_scalar" else OPS[case["op"]](s, A)
            key = (form, case["op"], tuple(case["s1"]), case["k1"], case["scalar"])
        elif form == "dot":
            A, B = values(case["s1"], d, 4), values(case["s2"], d, 5)
            try:
                expected = np.dot(A, B)
            except ValueError:
                expected = None
            key = ("dot", tuple(case["s1"]), tuple(case["s2"]), case["k1"], case["k2"])
        elif form in ("dot_nested", "dot_nested_mv"):
            A, B = values(case["s1"], d, 10), values(case["s2"], d, 11)
            try:
                dv = np.dot(A, B)
                expected = np.array(wrap_np(case["wrapper"], float(dv))) if dv.shape == () else None
                if dv.shape != ():
                    judged = False   # an arrayed dot under a scalar wrapper: no numpy counterpart, only the mismatch cases are judged
            except ValueError:
                expected = None
            key = (form, case["wrapper"], tuple(case["s1"]), tuple(case["s2"]))
        elif form == "elem_nested":
            A, B = values(case["s1"], d, 12), values(case["s1"], d, 13)
            B = np.where(np.abs(B) < 0.2, 1.5, B)
            expected = np.vectorize(lambda x: float(wrap_np(case["wrapper"], float(x))))(OPS[case["op"]](A, B))
            key = ("elem_nested", case["wrapper"], case["op"], tuple(case["s1"]))
        elif form == "dot_expr":
            A, B, C = values([2], d, 21), values([2], d, 22), values([2], d, 23)
            M, N = values([2, 2], d, 24), values([2, 2], d, 25)
            V, W = values([2], d, 26), values([2, 2], d, 27)
            X3, C3 = values([2, 3], d, 28), values([3], d, 29)
            try:
                expected = eval(case["tmpl"].replace(".dot(", "@(").replace("A@(", "A@(").replace("M@(", "M@(").replace(").dot", ")@"), {}, dict(A=A, B=B, C=C, M=M, N=N, V=V, W=W, X=X3, C3=C3))
                expected = np.asarray(expected, dtype=float)
            except ValueError as e:
                if "broadcast" not in str(e) and "shapes" not in str(e) and "mismatch" not in str(e):
                    return dict(verdict="inconclusive", witness=dict(harness="reference", error=repr(e)))
                expected = None        # numpy rejects the shapes: the DSL must reject them, too
            except Exception as e:
                return dict(verdict="inconclusive", witness=dict(harness="reference", error=repr(e)))
            key = ("dot_expr", case["tmpl"])
        elif form == "agg_variant":
            a = case["agg"]
            base = [2.0, -5.0, 1.0 + 0.5 * d]
            if case["variant"] == "flow_negative":
                vals = [max(0.0, x) for x in base]
            elif case["variant"] == "stock_rate":
                vals = [10.0 + x * 1.0 for x in base]       # level at t=1: initial 10 + rate * 1
                t = 1.0
            else:
                vals = [2.0, 10.0, 1.0 + 0.5 * d]           # entry 1 re-assigned to 10 after the aggregate was defined
            A = np.array(vals)
            if a == "size":
                expected = np.array(3.0)
            elif a == "rank":
                expected = np.array(sorted(vals, reverse=True)[case["rank"] - 1])
            else:
                expected = np.array({"sum": np.sum, "prod": np.prod, "mean": np.mean, "median": np.median, "stddev": np.std}[a](A))
            key = ("agg_variant", a, case["variant"])
        elif form == "redim":
            M3 = values([2, 3], d, 31)
            W3, V2 = values([3], d, 32), values([2], d, 33)
            tm = case["tmpl"]
            if tm == "redim_dot_ok":
                expected = np.dot(M3, W3)
            elif tm == "redim_dot_mismatch":
                expected = None
            elif tm == "redim_rank":
                expected = np.array(sorted(M3.flatten().tolist(), reverse=True)[4])
            else:
                expected = np.array(M3.sum())
            key = ("redim", tm)
        elif form == "agg":
            A = values(case["s1"], d, 6)
            a = case["agg"]
            if a == "size":
                expected = np.array(float(A.shape[0]))
                judged = A.ndim == 1
            elif a == "rank":
                flat = sorted(A.flatten().tolist(), reverse=True)
                r = case["rank"]
                expected = np.array(flat[len(flat) - 1 if (r < 0 or r > len(flat)) else r - 1])
            else:
                expected = np.array({"sum": np.sum, "prod": np.prod, "mean": np.mean, "median": np.median, "stddev": np.std}[a](A))
            key = ("agg", a, tuple(case["s1"]), case["k1"], case["rank"])
        elif form == "nested":
            A, B, C = values(case["s1"], d, 7), values(case["s1"], d, 8), values(case["s1"], d, 9)
            B = np.where(np.abs(B) < 0.2, 1.5, B)
            C = np.where(np.abs(C) < 0.2, 1.5, C)
            s = 2.5
            o, p = OPS[case["op"]], OPS[case["op2"]]
            with np.errstate(all="ignore"):
                expected = {"(A o B) p C": lambda: p(o(A, B), C), "A o (B p C)": lambda: o(A, p(B, C)),
                            "A o (B p s)": lambda: o(A, p(B, s)), "(A o s) p B": lambda: p(o(A, s), B)}[case["tmpl"]]()
            if not np.all(np.isfinite(expected)) or np.any(np.abs(expected) > 1e9):
                return dict(verdict="illcond", counters={"illcond": 1})
            key = ("nested", case["op"], case["op2"], tuple(case["s1"]), case["tmpl"])
        elif form == "named":
            v1 = {n: float(i + 1.5) for i, n in enumerate(case["n1"])}
            v2 = {n: float(3 * i + 2) for i, n in enumerate(case["n2"])}
            same = sorted(case["n1"]) == sorted(case["n2"])
            expected = {n: float(OPS[case["op"]](v1[n], v2[n])) for n in v1} if same else None
            key = ("named", case["op"], tuple(case["n1"]), tuple(case["n2"]))
        elif form == "named_matrix":
            n1 = {"A": {"a": 1.0, "b": 2.0}, "B": {"a": 3.0, "b": 4.5}}
            n2 = {"A": {"a": 2.0, "b": 5.0}, "B": {"a": -1.0, "b": 2.0}} if case["same"] else {"A": {"a": 2.0, "c": 5.0}, "B": {"a": -1.0, "c": 2.0}}
            expected = {r: {c: float(OPS[case["op"]](n1[r][c], n2[r][c])) for c in n1[r]} for r in n1} if case["same"] else None
            key = ("named_matrix", case["op"], case["same"])
        elif form == "named_vs_indexed":
            expected = None
            key = ("named_vs_indexed", case["op"])

        # ---------- real DSL ----------
        pyop = {"+": lambda x, y: x + y, "-": lambda x, y: x - y, "*": lambda x, y: x * y, "/": lambda x, y: x / y}
        res_kind = case.get("res", "converter")
        if form == "elem":
            a, b = make_el(m, case["k1"], "a", A), make_el(m, case["k2"], "b", B)
            expr = pyop[case["op"]](a, b)
        elif form in ("arr_scalar", "scalar_arr"):
            a = make_el(m, case["k1"], "a", A)
            if case["scalar"] == "float":
                sc = s
            else:
                sc = getattr(m, case["scalar"])("sc")
                sc.equation = s
            expr = pyop[case["op"]](a, sc) if form == "arr_scalar" else pyop[case["op"]](sc, a)
        elif form == "dot":
            a, b = make_el(m, case["k1"], "a", A), make_el(m, case["k2"], "b", B)
            expr = a.dot(b)
        elif form in ("dot_nested", "dot_nested_mv"):
            a, b = make_el(m, "converter", "a", A), make_el(m, "converter", "b", B)
            expr = wrap_dsl(case["wrapper"], a.dot(b))
        elif form == "elem_nested":
            a, b = make_el(m, "converter", "a", A), make_el(m, "converter", "b", B)
            expr = wrap_dsl(case["wrapper"], pyop[case["op"]](a, b))
        elif form == "dot_expr":
            env = dict(A=make_el(m, "converter", "A", A), B=make_el(m, "converter", "B", B), C=make_el(m, "converter", "C", C),
                       M=make_el(m, "converter", "M", M), N=make_el(m, "converter", "N", N), V=make_el(m, "converter", "V", V), W=make_el(m, "converter", "W", W),
                       X=make_el(m, "converter", "X", X3), C3=make_el(m, "converter", "C3", C3))
            expr = eval(case["tmpl"], {}, env)
        elif form == "agg_variant":
            v = case["variant"]
            if v == "flow_negative":
                a = m.flow("a")
                a.setup_vector(3, base)
            elif v == "stock_rate":
                a = m.stock("a")
                a.setup_vector(3, [10.0, 10.0, 10.0])
                for i in range(3):
                    a[i].equation = base[i]
            else:
                a = m.converter("a")
                a.setup_vector(3, [2.0, -5.0, 1.0 + 0.5 * d])
            expr = a.arr_rank(case["rank"]) if case["agg"] == "rank" else getattr(a, "arr_" + case["agg"])()
        elif form == "redim":
            Mx = m.converter("Mx")
            Mx.setup_matrix([2, 2], [[1.0, 2.0], [3.0, 4.0]])
            w2 = make_el(m, "converter", "w2", np.array([1.0, 1.0]))
            first = m.converter("first")
            first.equation = Mx.dot(w2)            # the matrix is used once with its first shape
            _ = first[0](0.0)
            r0 = m.converter("r0")
            r0.equation = Mx.arr_rank(1)
            _ = r0(0.0)
            Mx.setup_matrix([2, 3], [[float(x) for x in row] for row in M3])     # ... and then re-dimensioned
            w3, v2 = make_el(m, "converter", "w3", W3), make_el(m, "converter", "v2", V2)
            expr = {"redim_dot_ok": lambda: Mx.dot(w3), "redim_dot_mismatch": lambda: Mx.dot(v2),
                    "redim_rank": lambda: Mx.arr_rank(5), "redim_sum": lambda: Mx.arr_sum()}[case["tmpl"]]()
        elif form == "agg":
            a = make_el(m, case["k1"], "a", A)
            expr = a.arr_rank(case["rank"]) if case["agg"] == "rank" else getattr(a, "arr_" + case["agg"])()
        elif form == "nested":
            a, b, c = make_el(m, "converter", "a", A), make_el(m, "converter", "b", B), make_el(m, "converter", "c", C)
            o, p = pyop[case["op"]], pyop[case["op2"]]
            expr = {"(A o B) p C": lambda: p(o(a, b), c), "A o (B p C)": lambda: o(a, p(b, c)),
                    "A o (B p s)": lambda: o(a, p(b, s)), "(A o s) p B": lambda: p(o(a, s), b)}[case["tmpl"]]()
        elif form == "named":
            a = m.converter("a")
            a.setup_named_vector(v1)
            b = m.converter("b")
            b.setup_named_vector(v2)
            expr = pyop[case["op"]](a, b)
        elif form == "named_matrix":
            a = m.converter("a")
            a.setup_named_matrix(n1)
            b = m.converter("b")
            b.setup_named_matrix(n2)
            expr = pyop[case["op"]](a, b)
        elif form == "named_vs_indexed":
            a = m.converter("a")
            a.setup_named_vector({"x": 1.0, "y": 2.0})
            b = m.converter("b")
            b.setup_vector(2, [3.0, 4.0])
            expr = pyop[case["op"]](a, b)
        if res_kind == "stock" and form == "elem" and expected is not None:
            # arrayed stock: value after one Euler step = initial + dt * expr
            res = m.stock("r")
            if A.ndim == 1:
                res.setup_vector(A.shape[0], [1.0] * A.shape[0])
            else:
                res.setup_matrix(list(A.shape), [[1.0] * A.shape[1]] * A.shape[0])
            res.equation = expr
            expected = 1.0 + expected
            t = 1.0
        else:
            res = m.converter("r")
            res.equation = expr
            if form == "agg_variant" and case["variant"] == "reassigned":
                a[1] = 10.0          # re-assigned after the aggregating equation was written
        # ---------- read back ----------
        if form == "named":
            got = {n: float(res[n](t)) for n in (case["n1"] if expected is None else expected)}
        elif form == "named_matrix":
            got = {r: {c: float(res[r][c](t)) for c in ("a", "b")} for r in ("A", "B")}
        elif form == "named_vs_indexed":
            got = [float(res[i](t)) for i in ("x", "y")] if res.named_arrayed else [float(res[i](t)) for i in range(2)]
        elif expected is None and not judged:
            got = None
        elif expected is None:
            # numpy rejects: try to obtain any value at all
            if res._elements.vector_size() > 0:
                first = res[res._elements.equations[0]] if res.named_arrayed else res[0]
                got = float(first(t)) if first._elements.vector_size() == 0 else float(first[0](t))
            else:
                got = float(res(t))
        else:
            got = read(res, expected.shape, t)
            if form == "elem" and res_kind != "stock" and expected.ndim == 1:
                pdf = res.plot(return_df=True)
                prow = np.array([float(pdf[str(i)][t]) if str(i) in pdf.columns else float(pdf[i][t]) for i in range(expected.shape[0])])
                if not np.allclose(prow, expected, rtol=1e-9, atol=1e-12):
                    return viol(case, counters, "plot-value", expected, prow, before)
    except ShapeMismatch as e:
        return viol(case, counters, "shape", expected, str(e), before)
    except Exception as e:
        counters["rejected_mismatch" if expected is None else "rejected_supported"] = 1
        flush(counters, before)
        return dict(verdict="rejected", counters=counters, sample=dict(case=case, why="%s: %s" % (type(e).__name__, str(e)[:100])))
    flush(counters, before)
    if expected is None and judged:
        return viol(case, counters, "mismatch-accepted", None, got, before)
    if not judged:
        counters["not_judged"] = 1
        return dict(verdict="held", counters=counters)
    if isinstance(expected, dict):
        ok = got == expected or all(_close(_get(got, k), _get(expected, k)) for k in _keys(expected))
        n_entries = len(list(_keys(expected)))
        nontrivial = True
    else:
        ok = np.allclose(got, expected, rtol=1e-9, atol=1e-12)
        n_entries = int(expected.size)
        nontrivial = (expected.size >= 2 and len(set(np.round(expected.flatten(), 9))) >= 2) or form in ("agg", "dot")
    counters["entries_compared"] = n_entries
    if not ok:
        return viol(case, counters, "value:" + form, expected, got, before)
    counters["accepted_equal"] = 1
    return dict(verdict="held", nt=repr(key) if nontrivial else None, counters=counters,
                sample=dict(case=case, expected=np.asarray(expected).tolist() if not isinstance(expected, dict) else expected))


def _keys(d, pre=()):
    for k, v in d.items():
        if isinstance(v, dict):
            yield from _keys(v, pre + (k,))
        else:
            yield pre + (k,)


def _get(d, path):
    for k in path:
        d = d[k]
    return d


def _close(a, b):
    return abs(a - b) <= 1e-9 * max(1.0, abs(a), abs(b))


def flush(counters, before):
    for (nm, line) in list(_cov["lines"])[:]:
        counters["cov:%s:%d" % (nm, line)] = 1


def viol(case, counters, mech, expected, got, before):
    flush(counters, before)
    return dict(verdict="violated", counters=counters, mech=mech,
                witness=dict(case=case, expected=None if expected is None else (expected if isinstance(expected, dict) else np.asarray(expected).tolist()),
                             got=got if isinstance(got, (str, dict, float, list)) else np.asarray(got).tolist()))


def finalize(agg):
    per = {}
    for k in agg["counters"]:
        if k.startswith("cov:"):
            _, nm, line = k.split(":")
            per.setdefault(nm, set()).add(int(line))
    # how many source lines do the monitored functions have? (from the live code objects)
    total = {}
    try:
        import BPTK_Py.sddsl.operators as O
        import BPTK_Py.sddsl.element as EL
        for nm, fn in {"DotOperator.term": O.DotOperator.term, "DotOperator.resolve_dimensions": O.DotOperator.resolve_dimensions,
                       "Element._handle_arrayed": EL.Element._handle_arrayed, "BinaryOperator.__init__": O.BinaryOperator.__init__}.items():
            lines = set(l for (_, _, l) in fn.__code__.co_lines() if l)
            for c in fn.__code__.co_consts:
                if hasattr(c, "co_lines"):
                    lines |= set(l for (_, _, l) in c.co_lines() if l)
            total[nm] = len(lines)
    except Exception:
        pass
    return dict(dimension_rule_line_coverage={nm: "%d of %d lines" % (len(v), total.get(nm, 0)) for nm, v in per.items()},
                hook_missing=[] if per else ["sys.monitoring LINE coverage"])
