"""C14 - agent registry stays consistent under creation, deletion, reconfiguration.

Oracle: a shadow registry {id -> (type, state)} kept by the harness.
Monitors: icontract.invariant on a harness subclass of Model (ids unique, type
map = live ids per type, next id monotone), evaluated after every public call;
after every operation every query is evaluated for every id ever issued and
every (type, state).
"""
import itertools
import random

ID = "C14"
LEVEL = "exploration"
TECHNIQUE = "shadow-registry oracle after every operation + icontract class invariant on Model"
RULE = ("alphabet {create a, create b, create p (an agent whose initialize() creates a companion agent), a creation whose initialize() raises, a creation whose initialize() deletes the oldest agent of its own type, delete_agents(agent_ids(a)) with the model's own list, create_agents(a,2), delete oldest, delete newest, delete two ids, delete unknown id, "
        "configure_agents, Model.configure(dictionary), reset, flip state, an agent whose constructor creates another agent, a configuration that fails half way, a factory registered again while its agents live, two transient agents that delete themselves in their reset_cache() hook when idle, Model.reset_cache()}: ALL sequences of length<=3 (quick) / <=4 (thorough), plus 2500 / 30000 seeded random sequences "
        "of length 10-40; after every operation agent(id) for every id ever issued, agent_ids/agent_count per type, "
        "agent_count_per_state and next_agent per (type,state), random_agents. distinct_nontrivial = distinct operation "
        "sequences that contain at least one deletion/reconfiguration followed by a query on a non-empty population.")
ASSUMPTIONS = ["agent_ids order is not judged (compared as multisets)", "models carry a DataCollector, as every scenario manager gives them"]
REQUIRED = {"queries": 10000, "invariant_evaluations": 1000}
BUDGET_S = {"quick": 150, "thorough": 1200}

OPS = ["create_a", "create_b", "create_a2", "del_oldest", "del_newest", "del_two", "del_unknown", "configure", "reset", "flip", "create_p", "del_all_a_alias", "create_fail", "configure_dict", "create_r",
       "create_t2", "soft_reset", "create_q", "configure_fail", "reregister_a"]
TYPES = ("a", "b", "p", "x", "r", "t", "q")
STATES = ["active", "idle"]


def gen_cases(tier, seed):
    L = 3 if tier == "quick" else 4       # (17 operations: 17^5 sequences do not fit the budget; length 5 and beyond is covered by the random part)
    cases = []
    # exhaustive part: one case per 2-op prefix, enumerating all continuations up to L
    for p in itertools.product(range(len(OPS)), repeat=2):
        cases.append(dict(kind="enum", prefix=list(p), L=L))
    rng = random.Random(77 + seed)
    n = 2500 if tier == "quick" else 30000
    for i in range(n):
        cases.append(dict(kind="random", seq=[rng.randrange(len(OPS)) for _ in range(rng.randint(10, 40))]))
    # the repository's own ABM tests, run with the registry / routing / statistics contracts switched on
    cases.append(dict(kind="repo-suite", tests=["tests/unittests", "tests/test_bptk.py"]))
    return cases


def EXHAUSTIVE(tier):
    return False  # the <=L part is exhaustive; the random tail is not


class InvariantBroken(Exception):
    pass


_state = {}


def worker_init():
    from BPTK_Py import Model
    counts = _state.setdefault("counts", {"inv": 0})

    def registry_consistent(self):
        counts["inv"] += 1
        d = self.__dict__
        agents = d.get("agents")
        if agents is None:
            return True
        ids = [a.id for a in agents]
        if len(ids) != len(set(ids)):
            return False
        tm = d.get("agent_type_map", {})
        for t, lst in tm.items():
            if sorted(lst) != sorted(a.id for a in agents if a.agent_type == t):
                return False
        if ids and d.get("next_agent_id", 0) <= max(ids):
            return False
        return True

    class MonModel(Model):
        pass
    try:
        import icontract
        MonModel = icontract.invariant(registry_consistent, error=InvariantBroken)(MonModel)
        _state["icontract"] = True
    except ImportError:
        _state["icontract"] = False
    _state["Model"] = MonModel
    _state["pred"] = registry_consistent


def new_model():
    from BPTK_Py import Agent, DataCollector, SimultaneousScheduler
    _state["Agent"] = Agent
    m = _state["Model"](1, 5, 1, name="reg", scheduler=SimultaneousScheduler(), data_collector=DataCollector())
    m.register_agent_factory("a", lambda i, mod, p: Agent(i, mod, p, "a"))
    m.register_agent_factory("b", lambda i, mod, p: Agent(i, mod, p, "b"))

    class Parent(Agent):
        # an agent that brings a companion along: its initialize() hook creates another agent (re-entrant create_agent)
        def initialize(self):
            self.model.create_agent("b", None)
    m.register_agent_factory("p", lambda i, mod, p: Parent(i, mod, p, "p"))

    class Replacer(Agent):
        # a newcomer that removes its predecessor: initialize() deletes the oldest agent of its own type
        def initialize(self):
            ids = list(self.model.agent_ids("r"))
            if ids:
                self.model.delete_agent(min(ids))
    m.register_agent_factory("r", lambda i, mod, p: Replacer(i, mod, p, "r"))

    class Broken(Agent):
        # an agent whose set-up fails (it reads a property its specification forgot)
        def initialize(self):
            raise KeyError("capacity")
    m.register_agent_factory("x", lambda i, mod, p: Broken(i, mod, p, "x"))

    class CtorParent(Agent):
        # like Parent, but the companion is created in the constructor (inside the factory call)
        def __init__(self, agent_id, model, properties, agent_type):
            super().__init__(agent_id, model, properties, agent_type)
            model.create_agent("b", None)
    m.register_agent_factory("q", lambda i, mod, p: CtorParent(i, mod, p, "q"))

    class Transient(Agent):
        # an agent that uses the documented soft-reset hook to take itself out of the model once it is idle
        def reset_cache(self):
            if self.state == "idle":
                self.model.delete_agent(self.id)
    m.register_agent_factory("t", lambda i, mod, p: Transient(i, mod, p, "t"))
    return m


class Shadow:
    def __init__(self):
        self.live = {}      # id -> [type, state] in creation order
        self.issued = []

    def created(self, agent, typ):
        self.live[agent.id] = [typ, agent.state]
        self.issued.append(agent.id)


def apply(m, sh, op, counters):
    """Applies one operation to the real model and the shadow. Returns None or a witness."""
    name = OPS[op]
    before = set(a.id for a in m.agents)
    if name in ("create_a", "create_b"):
        t = name[-1]
        ag = m.create_agent(t, None)
        if ag.id in sh.issued:
            return dict(kind="id-reused", id=ag.id)
        sh.created(ag, t)
    elif name == "create_a2":
        m.create_agents({"name": "a", "count": 2})
        new = [a for a in m.agents if a.id not in before]
        if len(new) != 2:
            return dict(kind="create_agents-count", new=[a.id for a in new])
        for ag in new:
            if ag.id in sh.issued:
                return dict(kind="id-reused", id=ag.id)
            sh.created(ag, "a")
    elif name in ("create_p", "create_q"):
        ag = m.create_agent(name[-1], None)
        new = [a for a in m.agents if a.id not in before or a is ag]
        if sorted(a.agent_type for a in new) != ["b", name[-1]] or len(set(a.id for a in new)) != 2 or ag.agent_type != name[-1]:
            return dict(kind="nested-create", new=[(a.id, a.agent_type) for a in new], returned=(ag.id, ag.agent_type))
        for a2 in sorted(new, key=lambda a: a.id):
            if a2.id in sh.issued:
                return dict(kind="id-reused", id=a2.id)
            sh.created(a2, a2.agent_type)
    elif name == "create_r":
        old_r = sorted(i for i, (t, _s) in sh.live.items() if t == "r")
        ag = m.create_agent("r", None)
        if ag.id in sh.issued:
            return dict(kind="id-reused", id=ag.id)
        if old_r:
            del sh.live[old_r[0]]
        sh.created(ag, "r")
    elif name == "del_all_a_alias":
        # the list the model itself handed out is passed straight back
        ids = m.agent_ids("a")
        m.delete_agents(ids)
        for i in [i for i, (t, _s) in sh.live.items() if t == "a"]:
            del sh.live[i]
    elif name == "create_fail":
        try:
            m.create_agents({"name": "x", "count": 2})
            return dict(kind="failing-initialize-did-not-raise")
        except KeyError:
            pass
    elif name == "del_oldest":
        if sh.live:
            i = next(iter(sh.live))
            m.delete_agent(i)
            del sh.live[i]
    elif name == "del_newest":
        if sh.live:
            i = list(sh.live)[-1]
            m.delete_agent(i)
            del sh.live[i]
    elif name == "del_two":
        ids = list(sh.live)[:1] + list(sh.live)[-1:]
        m.delete_agents(ids)
        for i in set(ids):
            del sh.live[i]
    elif name == "del_unknown":
        m.delete_agent(10 ** 6)
        if sh.issued:
            dead = [i for i in sh.issued if i not in sh.live]
            if dead:
                m.delete_agent(dead[0])
    elif name == "configure":
        m.configure_agents([{"name": "a", "count": 1}, {"name": "b", "count": 2}])
        sh.live.clear()
        for ag in m.agents:
            if ag.id in sh.issued:
                return dict(kind="id-reused", id=ag.id)
            sh.created(ag, ag.agent_type)
    elif name == "configure_dict":
        # the route scenario files and dictionaries take: Model.configure(config)
        m.configure({"runspecs": {"starttime": 1, "stoptime": 5, "dt": 1}, "properties": {}, "agents": [{"name": "b", "count": 1}, {"name": "a", "count": 2}]})
        sh.live.clear()
        for ag in m.agents:
            if ag.id in sh.issued:
                return dict(kind="id-reused", id=ag.id)
            sh.created(ag, ag.agent_type)
    elif name == "configure_fail":
        # a configuration that cannot be applied (its second entry names a type without a factory / a type whose set-up fails): whatever
        # population the model is left with - the old one, or the part of the new one built so far - every query must tell the same story about it
        bad = [{"name": "a", "count": 1}, {"name": "nope", "count": 1}] if len(sh.issued) % 2 == 0 else [{"name": "b", "count": 2}, {"name": "x", "count": 1}]
        try:
            m.configure_agents(bad)
            return dict(kind="failing-configuration-did-not-raise")
        except KeyError:
            pass
        old = dict(sh.live)
        sh.live.clear()
        for ag in m.agents:
            if ag.id in old:
                sh.live[ag.id] = [ag.agent_type, ag.state]
            elif ag.id in sh.issued:
                return dict(kind="id-reused", id=ag.id)
            else:
                sh.created(ag, ag.agent_type)
    elif name == "reregister_a":
        # the factory of a type that has live agents is registered again (instantiate_model() called a second time does that): the agents stay
        m.register_agent_factory("a", lambda i, mod, p: _state["Agent"](i, mod, p, "a"))
    elif name == "reset":
        m.reset()
        sh.live.clear()
    elif name == "create_t2":
        m.create_agents({"name": "t", "count": 2})
        new = sorted((a for a in m.agents if a.id not in before), key=lambda a: a.id)
        if len(new) != 2:
            return dict(kind="create_agents-count", new=[a.id for a in new])
        new[0].state = "idle"       # (the first of the two has finished already)
        for ag in new:
            if ag.id in sh.issued:
                return dict(kind="id-reused", id=ag.id)
            sh.created(ag, "t")
    elif name == "soft_reset":
        m.reset_cache()             # every idle transient agent removes itself in its reset_cache() hook
        for i in [i for i, (t, st) in sh.live.items() if t == "t" and st == "idle"]:
            del sh.live[i]
    elif name == "flip":
        if sh.live:
            i = list(sh.live)[len(sh.live) // 2]
            ag = m.agent(i)
            if ag is None or ag.id != i:
                return dict(kind="agent(id)", id=i, got=None if ag is None else ag.id)
            ag.state = "idle" if ag.state == "active" else "active"
            sh.live[i][1] = ag.state
    return None


def audit(m, sh, counters):
    q = 0
    try:
        for i in sh.issued + [10 ** 6]:
            q += 1
            ag = m.agent(i)
            if i in sh.live:
                if ag is None or ag.id != i or ag.agent_type != sh.live[i][0]:
                    return dict(kind="agent(id)", id=i, got=None if ag is None else [ag.id, ag.agent_type], expected=sh.live[i])
            elif ag is not None:
                return dict(kind="agent(id)-dead", id=i, got=ag.id)
        for t in TYPES:
            exp_ids = sorted(i for i, (tt, s) in sh.live.items() if tt == t)
            q += 2
            got = sorted(m.agent_ids(t))
            if got != exp_ids:
                return dict(kind="agent_ids", type=t, got=got, expected=exp_ids)
            if m.agent_count(t) != len(exp_ids):
                return dict(kind="agent_count", type=t, got=m.agent_count(t), expected=len(exp_ids))
            for s in STATES:
                q += 2
                exp = sum(1 for i, (tt, ss) in sh.live.items() if tt == t and ss == s)
                got = m.agent_count_per_state(t, s)
                if got != exp:
                    return dict(kind="agent_count_per_state", type=t, state=s, got=got, expected=exp)
                na = m.next_agent(t, s)
                if (na is None) != (exp == 0) or (na is not None and (na.id not in sh.live or sh.live[na.id] != [t, s])):
                    return dict(kind="next_agent", type=t, state=s, got=None if na is None else na.id, expected_count=exp)
            for n in (1, 3):
                q += 1
                ra = m.random_agents(t, n)
                if len(ra) != min(n, len(exp_ids)) or any(i not in exp_ids for i in ra):
                    return dict(kind="random_agents", type=t, n=n, got=ra, live=exp_ids)
    except InvariantBroken as e:
        return dict(kind="invariant", error=str(e)[:200])
    except Exception as e:
        return dict(kind="query-exception", error="%s: %s" % (type(e).__name__, str(e)[:150]))
    finally:
        counters["queries"] = counters.get("queries", 0) + q
    if not _state["icontract"] and not _state["pred"](m):
        return dict(kind="invariant", error="registry_consistent (fallback evaluation)")
    return None


def run_seq(seq, counters):
    m, sh = new_model(), Shadow()
    for pos, op in enumerate(seq):
        try:
            w = apply(m, sh, op, counters)
        except InvariantBroken as e:
            w = dict(kind="invariant", error=str(e)[:200])
        except Exception as e:
            w = dict(kind="operation-exception", error="%s: %s" % (type(e).__name__, str(e)[:150]))
        if w is None:
            w = audit(m, sh, counters)
        if w is not None:
            w["after"] = [OPS[o] for o in seq[:pos + 1]]
            return w
    return None


def interesting(seq):
    names = [OPS[o] for o in seq]
    for i, n in enumerate(names):
        if n.startswith("del") or n in ("configure", "reset"):
            if any(x.startswith("create") or x == "configure" for x in names[:i]) and i + 1 <= len(names):
                return True
    return False


def run_repo_suite(case):
    """Scratch copy of the working tree (the suite writes files next to its fixtures), pytest with -p vlib.pytest_contracts."""
    import json
    import os
    import shutil
    import subprocess
    import sys
    import tempfile
    scratch = tempfile.mkdtemp(prefix="bptk_suite_contracts_")
    log = os.path.join(scratch, "contracts.json")
    try:
        subprocess.run(["rsync", "-a", "--exclude", ".git", os.environ["VERIF_REPO"] + "/", scratch + "/repo/"], check=True)
        env = dict(os.environ, PYTHONPATH=scratch + "/repo" + os.pathsep + os.environ["VERIF_HOME"], VERIF_CONTRACT_LOG=log, PYTHONWARNINGS="ignore")
        p = subprocess.run([sys.executable, "-m", "pytest", "-q", "-p", "no:cacheprovider", "-p", "vlib.pytest_contracts", "--timeout=600"] + case["tests"],
                           cwd=scratch + "/repo", env=env, capture_output=True, text=True, timeout=900)
        if not os.path.exists(log):
            return dict(verdict="inconclusive", witness=dict(msg="contract log missing", tail=p.stdout[-400:]))
        st = json.load(open(log))
        counters = {"suite_registry_invariant_evaluations": st["registry_invariant"],                     "suite_collect_statistics_evaluations": st["collect_statistics"], "sequences": 0}
        if st["violations"]:
            return dict(verdict="violated", counters=counters, mech="contract-fired-in-repo-suite", witness=dict(violations=st["violations"][:5], pytest_tail=p.stdout[-300:]))
        if st["registry_invariant"] == 0:
            return dict(verdict="inconclusive", counters=counters, witness=dict(msg="no contract was evaluated", tail=p.stdout[-400:]))
        return dict(verdict="held", counters=counters, sample=dict(case=case, contract_evaluations=st))
    finally:
        shutil.rmtree(scratch, True)


def run_case(case):
    if case["kind"] == "repo-suite":
        return run_repo_suite(case)
    counters = {}
    inv0 = _state["counts"]["inv"]
    nts = []
    witness = None
    if case["kind"] == "enum":
        n = 0
        for L in range(0, case["L"] - 1):
            for tail in itertools.product(range(len(OPS)), repeat=L):
                seq = case["prefix"] + list(tail)
                n += 1
                w = run_seq(seq, counters)
                if interesting(seq):
                    nts.append("seq:" + ",".join(map(str, seq)))
                if w is not None and witness is None:
                    witness = w
            if witness:
                break
        counters["sequences"] = n
    else:
        witness = run_seq(case["seq"], counters)
        counters["sequences"] = 1
        if interesting(case["seq"]):
            nts.append("seq:" + ",".join(map(str, case["seq"])))
    counters["invariant_evaluations"] = _state["counts"]["inv"] - inv0
    if witness:
        return dict(verdict="violated", nt=nts[:2000], counters=counters, mech=witness["kind"], witness=witness)
    return dict(verdict="held", nt=nts[:2000], counters=counters, sample=dict(case=case))
