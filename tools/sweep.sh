#!/bin/sh
# sweep.sh <tier> <seed>... : run every check, print id seed exit-code wall
T=$1; shift
cd /verif
for s in "$@"; do
  for i in 01 02 03 04 05 06 07 08 09 10 11 12 13 14 15 16 17 18 19 20; do
    st=$(date +%s)
    out=$(VERIF_SEED=$s ./vcheck C$i --tier $T --no-evidence 2>&1); rc=$?
    en=$(date +%s)
    echo "C$i seed=$s rc=$rc $((en-st))s $(echo "$out" | grep -E '^(VIOLATION|INCONCLUSIVE)' | head -2 | cut -c1-200 | tr '\n' ' ')"
  done
done
