#!/bin/sh
# sweep.sh <tier> <seed>... : run every check, print id seed exit-code wall.
# Runs the checks of the tree this script lies in (under `vp run` that is the snapshot of the commit), against
# $VP_RUN_REPO when `vp run --with-repo` provided a snapshot of /repo's HEAD, else against /repo itself.
T=$1; shift
HERE="$(cd "$(dirname "$0")/.." && pwd)"
cd "$HERE" || exit 2
if [ -n "$VP_RUN_REPO" ]; then export VERIF_REPO="$VP_RUN_REPO"; fi
echo "sweep: checks of $HERE against ${VERIF_REPO:-/repo}"
for s in "$@"; do
  for i in 01 02 03 04 05 06 07 08 09 10 11 12 13 14 15 16 17 18 19 20; do
    st=$(date +%s)
    out=$(VERIF_SEED=$s ./vcheck C$i --tier $T --no-evidence 2>&1); rc=$?
    en=$(date +%s)
    echo "C$i seed=$s rc=$rc $((en-st))s $(echo "$out" | grep -E '^(VIOLATION|INCONCLUSIVE)' | head -2 | cut -c1-200 | tr '\n' ' ')"
  done
done
