#!/bin/sh
# recheck_seeded.sh [seed...] : for every kept seeded change: apply to /repo, run the check named in meta.json (property) in the
# quick tier with each seed (default 0), expect exit 1; restore /repo. Prints one line per (change, seed); "MISSED" marks exit 0.
# RS_REPO=<clone of /repo> makes it work on that clone (the checks then run with VERIF_REPO=<clone>), so /repo stays usable meanwhile.
R="${RS_REPO:-/repo}"
if [ "$R" != "/repo" ]; then export VERIF_REPO="$R"; fi
cd "$R" || exit 2
git diff --quiet || { echo "REPO DIRTY"; exit 2; }
SEEDS="${*:-0}"
for d in /verif/seeded/*/; do
  n=$(basename $d)
  p=$(python3 -c "import json;print(json.load(open('$d/meta.json'))['property'])")
  st=$(python3 -c "import json;print(json.load(open('$d/meta.json'))['status'])")
  if [ "$st" = "neutralised-by-fix" ]; then echo "$n $p skipped (neutralised by a repository fix; see meta.json)"; continue; fi
  if ! git apply --check $d/patch.diff 2>/dev/null; then echo "$n $p NOAPPLY"; continue; fi
  git apply $d/patch.diff
  for s in $SEEDS; do
    out=$(cd /verif && VERIF_SEED=$s ./vcheck $p --tier quick --no-evidence --jobs ${RS_JOBS:-16} 2>&1); rc=$?
    nv=$(echo "$out" | grep -c '^VIOLATION')
    if [ $rc -eq 1 ]; then echo "$n $p seed=$s rc=$rc $nv violations"; else echo "$n $p seed=$s rc=$rc MISSED"; fi
  done
  git checkout -- . && git clean -fdq BPTK_Py
done
