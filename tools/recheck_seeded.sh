#!/bin/sh
# For every kept seeded change: apply to /repo, run the check named in meta.json (property), expect exit 1; restore.
cd /repo || exit 2
git diff --quiet || { echo "REPO DIRTY"; exit 2; }
for d in /verif/seeded/*/; do
  n=$(basename $d)
  p=$(python3 -c "import json;print(json.load(open('$d/meta.json'))['property'])")
  if ! git apply --check $d/patch.diff 2>/dev/null; then echo "$n $p NOAPPLY"; continue; fi
  git apply $d/patch.diff
  out=$(cd /verif && ./vcheck $p --tier quick --no-evidence 2>&1); rc=$?
  git checkout -- . 
  echo "$n $p rc=$rc $(echo "$out" | grep -c '^VIOLATION') violations"
done
