#!/usr/bin/env python3
"""Regenerates MANIFEST.json from the check modules present in checks/ (static
text per check lives in tools/manifest_text.json)."""
import json, os, re
HOME = os.path.dirname(os.path.dirname(os.path.abspath(__file__)))
text = json.load(open(os.path.join(HOME, "tools", "manifest_text.json")))
props = [json.loads(l) for l in open(os.path.join(HOME, "properties.jsonl"))]
checks, na = [], []
for p in props:
    pid = p["id"]
    path = os.path.join(HOME, "checks", pid.lower() + ".py")
    t = text.get(pid, {})
    if os.path.exists(path) and not t.get("withdrawn"):
        src = open(path).read()
        level = re.search(r'^LEVEL\s*=\s*"(\w+)"', src, re.M).group(1)
        tech = re.search(r'^TECHNIQUE\s*=\s*\(?\s*"([^"]+)"', src, re.M).group(1)
        checks.append(dict(
            property_id=pid,
            quick_cmd="./vcheck %s --tier quick" % pid,
            thorough_cmd="./vcheck %s --tier thorough" % pid,
            evidence_file="/verif/evidence/%s.json" % pid,
            replay_cmd_template="./vcheck %s --replay {path}" % pid,
            engine="vcheck",
            level_claimed=dict(category=level, text=t.get("level_text", ""), design_ref=t.get("design_ref", "DESIGN.md section 3, " + pid)),
            level_note=t.get("level_note", ""),
            technique=tech))
    else:
        na.append(dict(property_id=pid, reason=t.get("na_reason", "check not built yet in this round; planned with the runtime-monitoring design in DESIGN.md section 3")))
man = dict(
    version=1,
    setup_cmd="/venv/bin/pip install -q --no-index --find-links /opt/veriftools/wheels --target /verif/.deps icontract jsonschema",
    hooks=dict(guard="BPTK_PY_VERIF", enable="no source hooks: every monitor is attached from the harness at run time (wrapping, sys.monitoring, rebinding module globals); ./vcheck sets BPTK_PY_VERIF=1 for information only",
               baseline_off_cmd="cd /repo && /venv/bin/python -m pytest -ra -q -p no:cacheprovider --timeout=900 --continue-on-collection-errors",
               source_commits=[], add_only=True),
    engines=[dict(name="vcheck", path="/verif/vcheck", serves_properties=[c["property_id"] for c in checks],
                  kind_free_text="runtime monitoring driver: sharded workloads against the real code under /repo, oracles over observed executions, three-valued verdicts")],
    checks=checks,
    not_applicable=na,
    notes="Exit codes of every check: 0 held on everything explored (KNOWN-FINDING lines possible), 1 VIOLATION, 3 inconclusive (monitor never reached / watchdog). Known findings: /verif/known_findings.json.")
json.dump(man, open(os.path.join(HOME, "MANIFEST.json"), "w"), indent=1)
print("checks:", [c["property_id"] for c in checks], "na:", len(na))
