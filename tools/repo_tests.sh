#!/bin/sh
# Run the repository's pinned suite on a scratch copy of /repo's working tree
# (the suite writes untracked files next to its fixtures). Usage: repo_tests.sh [pytest args]
S=$(mktemp -d /tmp/bptk_suite_XXXX)
rsync -a --exclude .git /repo/ "$S/"
cd "$S" || exit 2
env -u BPTK_PY_VERIF PYTHONPATH="$S" /venv/bin/python -m pytest -q -p no:cacheprovider --timeout=900 --continue-on-collection-errors "$@" 2>&1 | grep -E "^(FAILED|ERROR)|passed|failed" | tail -20
rc=$?
cd / && rm -rf "$S"
exit $rc
