#!/bin/sh
# try_mut.sh <PROP> <dir with patch.diff demo.py> [tier] : apply to /repo, run demo + check, always restore /repo.
P=$1; D=$2; T=${3:-quick}
cd /repo || exit 2
if ! git diff --quiet; then echo "REPO DIRTY - abort"; exit 2; fi
S=$(mktemp -d /tmp/mutscratch_XXXX); mkdir -p $S/scenarios
echo "== demo on clean tree"; (cd $S && PYTHONPATH=/repo PYTHONWARNINGS=ignore timeout 600 /venv/bin/python $D/demo.py 2>&1 | tail -3; echo "rc=$?")
if ! git apply --check $D/patch.diff 2>/dev/null; then echo "PATCH DOES NOT APPLY"; rm -rf $S; exit 3; fi
git apply $D/patch.diff
echo "== demo on mutated tree"; (cd $S && PYTHONPATH=/repo PYTHONWARNINGS=ignore timeout 600 /venv/bin/python $D/demo.py 2>&1 | tail -3)
echo "== vcheck $P $T on mutated tree"
cd /verif && ./vcheck $P --tier $T --no-evidence 2>&1 | grep -E "^(VIOLATION|KNOWN|HELD|INCONCLUSIVE|$P tier)|mechanism" | cut -c1-400 | head -8
echo "exit=$?"
cd /repo && git checkout -- . && git clean -fdq BPTK_Py && git status --short | head -3
rm -rf $S
