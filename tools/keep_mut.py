#!/usr/bin/env python3
"""keep_mut.py <PROP> <srcdir> <name> <caught_by> <status> [note]: archive a confirmed seeded change under /verif/seeded/<name>/."""
import json, os, shutil, sys
prop, src, name, caught, status = sys.argv[1:6]
note = sys.argv[6] if len(sys.argv) > 6 else ""
dst = os.path.join("/verif/seeded", name)
os.makedirs(dst, exist_ok=True)
for f in ("patch.diff", "demo.py", "notes.md"):
    if os.path.exists(os.path.join(src, f)):
        shutil.copy(os.path.join(src, f), os.path.join(dst, f))
notes = open(os.path.join(dst, "notes.md")).read() if os.path.exists(os.path.join(dst, "notes.md")) else ""
meta = dict(property=prop, breaks=prop, needs_to_manifest=notes[:1500], origin="independent sub-agent given only the property text and a scratch worktree",
            what_i_ran=["tools/try_mut.sh %s <dir>: demo.py on clean /repo (PASS) and with patch applied (FAIL); ./vcheck %s --tier quick with the patch applied; /repo restored" % (prop, prop),
                        "existing test suite with the patch applied: reported by the sub-agent as 106 passed + the baseline failure test_sddsl_functions"],
            caught_by=caught, status=status, note=note)
json.dump(meta, open(os.path.join(dst, "meta.json"), "w"), indent=1)
print("kept", dst)
