#!/usr/bin/env python3
"""Regenerates the fix table and the seeded-change table inside DESIGN.md (between the table headers and the next blank line)."""
import json, os, subprocess, re
log = subprocess.run(['git', '-C', '/repo', 'log', '--reverse', '--format=%h %s', '331a7f5..HEAD'], capture_output=True, text=True).stdout.strip().split('\n')
fixes = '\n'.join('| `%s` | %s |' % (l.split()[0], ' '.join(l.split()[1:])) for l in log)
rows = []
for d in sorted(os.listdir('/verif/seeded')):
    m = json.load(open('/verif/seeded/%s/meta.json' % d))
    rows.append('| %s | %s | %s | %s |' % (d, m['property'], m['status'], m['caught_by'].replace('|', '/')))
s = open('/verif/DESIGN.md').read()
def repl(header, body, s):
    i = s.index(header) + len(header)
    j = s.index('\n\n', i)
    return s[:i] + body + s[j:]
s = repl('| commit | subject |\n|---|---|\n', fixes, s)
s = repl('| seeded change | property | status | caught by |\n|---|---|---|---|\n', '\n'.join(rows), s)
s = re.sub(r'\d+ changes are kept under', '%d changes are kept under' % len(rows), s)
s = re.sub(r'all \d+ are caught by the committed checks', 'all %d are caught by the committed checks' % len(rows), s)
s = re.sub(r'except the \w+ marked `neutralised-by-fix`', 'except the %d marked `neutralised-by-fix`' % sum(1 for r in rows if 'neutralised-by-fix' in r), s)
open('/verif/DESIGN.md', 'w').write(s)
print(len(log), 'fixes', len(rows), 'seeded')
