"""Model specs as data, a builder for the SD DSL and seeded generators."""
import random
from decimal import Decimal as D

from vlib import expr as X


def build_dsl(spec, name="m", late_runspecs=False):
    """Build a BPTK_Py Model from a spec with the real DSL API.  Returns (model, elements).
    late_runspecs: the model is created and its equations are defined under other run specs (earlier start, later stop,
    coarser dt); the spec's run specs are set afterwards with Model.run_specs()."""
    from BPTK_Py import Model
    run = spec["run"]
    if late_runspecs:
        m = Model(starttime=float(run["start"]) - 2.0, stoptime=float(run["stop"]) + 3.0, dt=float(run["dt"]) * 2.0, name=name)
        E = populate(m, spec)
        m.run_specs(float(run["start"]), float(run["stop"]), float(run["dt"]))
        return m, E
    m = Model(starttime=float(run["start"]), stoptime=float(run["stop"]), dt=float(run["dt"]), name=name)
    return m, populate(m, spec)


def populate(m, spec):
    """Create the spec's elements on an existing Model (used by file-based model classes, too)."""
    for pn, pts in spec.get("points", {}).items():
        m.points[pn] = [list(p) for p in pts]
    E = {}
    mk = dict(constant=m.constant, converter=m.converter, flow=m.flow, biflow=m.biflow, stock=m.stock)
    for e in spec["elements"]:
        E[e["name"]] = mk[e["kind"]](e["name"])
    for e in spec["elements"]:
        el = E[e["name"]]
        k = e["kind"]
        if k == "constant":
            el.equation = float(e["value"])
        elif k == "stock":
            init = e.get("init", 0.0)
            el.initial_value = E[init["ref"]] if isinstance(init, dict) else float(init)
            if e.get("eq") is not None:
                el.equation = X.to_dsl(e["eq"], E, m)
        else:
            el.equation = X.to_dsl(e["eq"], E, m)
    return E


RUNSPECS = [
    # (start, dt, binary-exact?)
    ("0", "1", True), ("0", "0.5", True), ("1", "0.25", True), ("0", "0.125", True), ("2", "0.5", True),
    ("0", "0.1", False), ("1", "0.2", False), ("0", "0.05", False), ("0.5", "0.1", False), ("2.3", "0.1", False),
    ("0.5", "0.25", True), ("1", "1", True),
    # start time written with more decimals than dt
    ("0.5", "1", True), ("0.25", "0.5", True), ("2.3", "0.5", False), ("0.1", "0.2", False), ("100.7", "0.1", False), ("0.125", "0.25", True),
]


def pick_run(rng, steps=None):
    start, dt, exact = rng.choice(RUNSPECS)
    n = steps or rng.randint(3, 24)
    stop = D(start) + n * D(dt)
    return dict(start=start, stop=str(stop), dt=dt), exact


CONST_POOL = [0.0, 1.0, -1.0, 0.5, 2.0, -2.5, 0.1, 3.0, 7.25, -0.75, 10.0, 0.3]


def has_ref(a):
    if not isinstance(a, list) or not a:
        return False
    if a[0] in ("ref", "time", "delay", "smooth", "trend", "lookup", "dt", "starttime", "stoptime", "step", "pulse"):
        return True
    return any(has_ref(z) for z in a[1:] if isinstance(z, list))


class Gen:
    """Random acyclic stock-and-flow specs over the DSL vocabulary."""

    def __init__(self, rng, builtins=True):
        self.rng = rng
        self.builtins = builtins

    def spec(self):
        r = self.rng
        run, exact = pick_run(r)
        self.run, self.exact = run, exact
        dt = D(run["dt"])
        self.points = {}
        for i in range(r.randint(1, 2)):
            xs = sorted(set(round(r.uniform(-2, 12), 2) for _ in range(r.randint(3, 5))))
            if len(xs) < 2:
                xs = [0.0, 5.0]
            self.points["p%d" % i] = [[x, round(r.uniform(-5, 10), 2)] for x in xs]
        els = []
        self.nonstock = []
        self.stocks = ["s%d" % i for i in range(r.randint(1, 3))]
        self.used_builtins = []
        for i in range(r.randint(1, 4)):
            els.append(dict(name="c%d" % i, kind="constant", value=r.choice(CONST_POOL)))
            self.nonstock.append("c%d" % i)
        self.consts = list(self.nonstock)
        nconv, nflow = r.randint(0, 4), r.randint(1, 4)
        kinds = ["converter"] * nconv + [r.choice(["flow", "biflow"]) for _ in range(nflow)]
        r.shuffle(kinds)
        flows = []
        for i, k in enumerate(kinds):
            nm = "%s%d" % ({"converter": "v", "flow": "f", "biflow": "b"}[k], i)
            els.append(dict(name=nm, kind=k, eq=self.tree(r.randint(1, 3), pos=k)))
            self.nonstock.append(nm)
            if k != "converter":
                flows.append(nm)
        for s in self.stocks:
            init = r.choice(CONST_POOL + [5.0, 20.0])
            if r.random() < 0.25:
                init = dict(ref=r.choice([n for n in self.nonstock if n[0] in "c"]))
            if r.random() < 0.3:
                eq = self.tree(r.randint(1, 2), pos="stock")  # built-ins directly in a stock equation
            else:
                eq = None
                for f in r.sample(flows, min(len(flows), r.randint(1, 3))) if flows else []:
                    term = ["ref", f]
                    if eq is None:
                        eq = term if r.random() < 0.7 else ["neg", term]
                    else:
                        eq = ["bin", r.choice(["+", "-"]), eq, term]
                if eq is None:
                    eq = ["num", 1.0]
            els.append(dict(name=s, kind="stock", init=init, eq=eq))
        return dict(run=run, points=self.points, elements=els)

    def leaf(self):
        r = self.rng
        x = r.random()
        pool = self.nonstock + self.stocks
        if x < 0.6 and pool:
            return ["ref", r.choice(pool)]
        if x < 0.85:
            return ["num", r.choice([0.5, 1.0, 2.0, -1.0, 3.0, 0.1, 4.0])]
        return ["time"]

    def tree(self, depth, pos):
        t = self._tree(depth, pos)
        if not has_ref(t):
            # a pure-number subtree is folded by Python before the DSL sees it (or
            # rejected by abs/exp); anchor it on a model element instead
            pool = self.nonstock + self.stocks
            if pool:
                t = ["bin", "+", ["ref", self.rng.choice(pool)], t]
        return t

    def _tree(self, depth, pos):
        r = self.rng
        if depth <= 0:
            return self.leaf()
        x = r.random()
        if self.builtins and x < 0.3:
            return self.builtin(depth, pos)
        if x < 0.7:
            op = r.choice(["+", "-", "*", "+", "-"])
            return ["bin", op, self.tree(depth - 1, pos), self.tree(depth - 1, pos)]
        if x < 0.78:
            den = ["bin", "+", ["fn", "abs", self.tree(depth - 1, pos)], ["num", 1.0]]
            return ["bin", "/", self.tree(depth - 1, pos), den]
        if x < 0.86:
            return ["fn", r.choice(["min", "max"]), self.tree(depth - 1, pos), self.tree(depth - 1, pos)]
        if x < 0.93:
            return ["if", ["cmp", r.choice(["<", ">", "<=", ">="]), self.tree(depth - 1, pos), self.tree(depth - 1, pos)],
                    self.tree(depth - 1, pos), self.tree(depth - 1, pos)]
        if x < 0.97:
            return ["neg", self.tree(depth - 1, pos)]
        return ["fn", "sqrt", ["bin", "+", ["fn", "abs", self.tree(depth - 1, pos)], ["num", 1.0]]]

    def builtin(self, depth, pos):
        r = self.rng
        dt = D(self.run["dt"])
        start = D(self.run["start"])
        choices = ["lookup", "lookup_named", "delay", "delay_init", "smooth", "trend", "dt", "starttime", "stoptime"]
        choices += ["step", "step_grid"]
        if self.exact:
            choices += ["pulse", "pulse_rep"]
        b = r.choice(choices)
        self.used_builtins.append((b, pos))
        if b == "lookup":
            pts = self.points[r.choice(sorted(self.points))]
            return ["lookup", self.tree(depth - 1, pos), pts]
        if b == "lookup_named":
            return ["lookup", self.tree(depth - 1, pos), r.choice(sorted(self.points))]
        if b in ("delay", "delay_init"):
            pool = self.nonstock + self.stocks
            d = float(dt * r.randint(1, 4))
            return ["delay", r.choice(pool), d, r.choice([0.0, 1.5, -2.0]) if b == "delay_init" else None]
        if b in ("smooth", "trend"):
            T = r.choice([1.0, 2.0, 4.0, 0.5 if dt <= D("0.5") else 2.0])
            init = r.choice([1.0, 2.0, 5.0])
            return [b, self.tree(depth - 1, pos), T, init]
        if b == "step":
            ts = float(start + dt * r.randint(0, 6) + dt / 2)  # off-grid: no tie at the step time
            return ["step", r.choice([1.0, 2.5, -3.0]), ts]
        if b == "step_grid":
            # exactly ON a grid time: there the step has not happened yet (t > ts is false), in a stock equation as much as in a flow
            return ["step", r.choice([1.0, 2.5, -3.0]), float(start + dt * r.randint(1, 6))]
        if b == "pulse":
            return ["pulse", r.choice([1.0, 4.0]), float(start + dt * r.randint(0, 5)), 0.0]
        if b == "pulse_rep":
            return ["pulse", r.choice([1.0, 4.0]), float(start + dt * r.randint(0, 3)), float(dt * r.randint(1, 3))]
        return [b]
