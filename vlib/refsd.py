"""Reference interpreter for stock-and-flow model specs (independent of the
repository).  Evaluates on the integer step index k; time t_k = start + k*dt
is computed in decimal arithmetic and converted to float only where an
equation reads it.

Spec: dict(run=dict(start=str, stop=str, dt=str), points={name: [[x,y],..]},
           elements=[dict(name, kind, eq|value|init), ...])
kinds: constant(value) converter(eq) flow(eq) biflow(eq) stock(init, eq)
Non-stock elements may reference earlier non-stock elements and any stock.
"""
import json
import math
from fractions import Fraction


def D(x):
    """exact rational from a decimal string, a 'p/q' string (reciprocal dt) or a number"""
    return Fraction(str(x))


from vlib.expr import IllConditioned, ev, _num


def grid(run):
    s, e, dt = D(run["start"]), D(run["stop"]), D(run["dt"])
    n = (e - s) / dt
    if n.denominator != 1:
        raise ValueError("stop not on grid")
    n = int(n)
    return [float(s + i * dt) for i in range(n + 1)]


def interp(x, pts):
    xs = [p[0] for p in pts]
    ys = [p[1] for p in pts]
    if x <= xs[0]:
        return float(ys[0])
    if x >= xs[-1]:
        return float(ys[-1])
    for i in range(len(xs) - 1):
        if xs[i] <= x <= xs[i + 1]:
            if xs[i + 1] == xs[i]:
                return float(ys[i])
            w = (x - xs[i]) / (xs[i + 1] - xs[i])
            return float(ys[i] + w * (ys[i + 1] - ys[i]))
    raise AssertionError


class Ref:
    def __init__(self, spec, param_schedule=None):
        """param_schedule: optional {k: {"constants": {name: v}, "points": {name: pts}}}
        piecewise-constant parameters taking effect from step k on (C09)."""
        self.spec = spec
        self.run = spec["run"]
        self.start, self.dt = D(self.run["start"]), D(self.run["dt"])
        self.stop = D(self.run["stop"])
        self.times = grid(self.run)
        self.n = len(self.times) - 1
        self.fdt = float(self.dt)
        self.el = {e["name"]: e for e in spec["elements"]}
        self.order = [e["name"] for e in spec["elements"]]
        self.vals = {n: {} for n in self.order}
        self.aux = {}
        self.min_dist = float("inf")
        self.k = 0
        self.sched = param_schedule or {}
        self.filled = -1

    # ---- environment interface used by expr.ev -------------------------
    def ref(self, name):
        return self.value(name, self.k)

    def time(self):
        return self.times[self.k] if 0 <= self.k <= self.n else float(self.start + self.k * self.dt)

    def cond(self, dist, scale=1.0):
        d = abs(dist) / max(1.0, abs(scale))
        if d < self.min_dist:
            self.min_dist = d

    def vec(self, name):
        raise KeyError(name)

    def points(self, p, k):
        if isinstance(p, str):
            cur = self.spec.get("points", {}).get(p)
            for kk in sorted(self.sched):
                if kk <= k and p in self.sched[kk].get("points", {}):
                    cur = self.sched[kk]["points"][p]
            return cur
        return p

    def at(self, k, ast):
        old = self.k
        self.k = k
        try:
            return ev(ast, self)
        finally:
            self.k = old

    def builtin(self, a):
        k, kind = self.k, a[0]
        if kind == "dt":
            return self.fdt
        if kind == "starttime":
            return float(self.start)
        if kind == "stoptime":
            return float(self.stop)
        if kind == "lookup":
            return _num(interp(ev(a[1], self), self.points(a[2], k)))
        if kind == "step":
            h, ts = a[1], a[2]
            if self.time() != ts:
                self.cond(self.time() - ts)     # (a step time that IS a grid time is an exact tie, not a near miss: the step has not happened yet there)
            return h if self.time() > ts else 0.0
        if kind == "pulse":
            vol, first, interval = a[1], a[2], a[3]
            t = self.time()
            if interval == 0.0:
                hit = (t == first)
                if not hit:
                    self.cond(t - first)
            else:
                q = (t - first) / interval
                hit = (t - first) >= 0 and (t - first) % interval == 0
                if not hit and t < first:
                    self.cond(t - first)          # before the first pulse nothing fires, whole multiples of the interval included
                elif not hit:
                    self.cond((q - round(q)) * interval)
            return vol / self.fdt if hit else 0.0
        if kind == "delay":
            name, dur, init = a[1], a[2], a[3]
            steps = D(str(dur)) / self.dt
            if steps.denominator != 1:
                raise IllConditioned("delay not a multiple of dt")
            kk = k - int(steps)
            if kk >= 0:
                return self.value(name, kk)
            return init if init is not None else self.value(name, 0)
        if kind in ("smooth", "trend"):
            avg = self.average(a, k)
            if kind == "smooth":
                return avg
            inp = ev(a[1], self)
            den = avg * a[2]
            if abs(den) < 1e-6:
                raise IllConditioned("trend denominator")
            return _num((inp - avg) / den)
        raise KeyError(kind)

    def average(self, a, k):
        key = json.dumps(a[1:], sort_keys=True)
        memo = self.aux.setdefault(key, {})
        if 0 not in memo:
            memo[0] = float(a[3])
        top = max(memo)
        for j in range(top + 1, k + 1):
            prev = memo[j - 1]
            memo[j] = _num(prev + self.fdt * (self.at(j - 1, a[1]) - prev) / a[2])
        return memo[k]

    # ---- element values --------------------------------------------------
    def const_value(self, name, k):
        v = self.el[name]["value"]
        for kk in sorted(self.sched):
            if kk <= k and name in self.sched[kk].get("constants", {}):
                v = self.sched[kk]["constants"][name]
        return float(v)

    def value(self, name, k):
        if k < 0:
            raise IllConditioned("before start")
        memo = self.vals[name]
        if k in memo:
            return memo[k]
        e = self.el[name]
        kind = e["kind"]
        if kind == "constant":
            v = self.const_value(name, k)
        elif kind == "stock":
            if k == 0:
                init = e.get("init", 0.0)
                v = self.value(init["ref"], 0) if isinstance(init, dict) else float(init)
            else:
                # iterate upwards to avoid deep recursion
                j = k - 1
                while j > 0 and j not in memo:
                    j -= 1
                if j not in memo:
                    self.value(name, 0)
                    j = 0
                for jj in range(j + 1, k + 1):
                    prev = memo[jj - 1]
                    eq = e.get("eq")
                    net = 0.0 if eq is None else self.at(jj - 1, eq)
                    memo[jj] = _num(prev + self.fdt * net)
                return memo[k]
        else:
            x = self.at(k, e["eq"])
            if isinstance(x, bool):
                x = float(x)
            v = _num(max(0.0, x)) if kind == "flow" else _num(x)
        memo[k] = v
        return v

    def table(self, names=None, conditioning=True):
        """{name: [value at k=0..n]}; raises IllConditioned for unusable specs.

        conditioning: the table is computed a second time with every stock's initial value and every constant
        perturbed by a relative 1e-12 (zeros stay zero); a cell that moves by more than 1e-10 means the dynamics amplify
        rounding noise by more than 100x (an unstable Euler recursion, e.g. |1 - dt*k| > 1 over many steps), so a legitimate
        difference in floating-point summation order could exceed the comparison tolerance of the checks: such specs are
        set aside as ill-conditioned instead of being judged."""
        names = names or self.order
        out = {}
        for k in range(self.n + 1):
            for nme in self.order:
                self.value(nme, k)
        if conditioning:
            import copy
            sp2 = copy.deepcopy(self.spec)
            for e in sp2["elements"]:
                if e["kind"] == "stock" and not isinstance(e.get("init", 0.0), dict):
                    e["init"] = float(e.get("init", 0.0)) * (1 + 1e-12)
                elif e["kind"] == "constant":
                    e["value"] = float(e["value"]) * (1 + 1e-12)
            twin = Ref(sp2, self.sched)
            import vlib.expr as _X
            _X.TINY_OK[0] = True
            try:
                t2 = twin.table(conditioning=False)
            finally:
                _X.TINY_OK[0] = False
            if twin.min_dist < self.min_dist:
                self.min_dist = twin.min_dist
            for nme in self.order:
                for k in range(self.n + 1):
                    a, b = self.vals[nme][k], t2[nme][k]
                    if isinstance(a, (int, float)) and isinstance(b, (int, float)) and not abs(a - b) <= 1e-10 * max(1.0, abs(a)):
                        raise IllConditioned("amplifies a 1e-12 perturbation to %.3g at %s[%d]" % (abs(a - b), nme, k))
        for nme in names:
            out[nme] = [self.vals[nme][k] for k in range(self.n + 1)]
        return out
