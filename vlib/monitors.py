"""Monitors attached from outside the repository (no source hooks)."""
import threading

_lock = threading.Lock()
_active = []          # stack of active MemoRecorders
HOOK_MISSING = []


class MemoRecorder:
    """Records (equation, raw arg, key used, hit, value, thread) for every
    Model.memoize call while active."""

    def __init__(self, limit=2_000_000):
        self.events = []
        self.limit = limit

    def __enter__(self):
        with _lock:
            _active.append(self)
        return self

    def __exit__(self, *a):
        with _lock:
            _active.remove(self)

    def add(self, ev):
        with _lock:
            if len(self.events) < self.limit:
                self.events.append(ev)


def install_memo_monitor():
    """Wrap Model.memoize (class level, so that cloned scenario models are
    covered).  Looked up defensively: if the target is gone the checks continue
    on their boundary oracles and report hook_missing."""
    try:
        from BPTK_Py.modeling.model import Model
        orig = Model.memoize
    except Exception:
        HOOK_MISSING.append("Model.memoize")
        return False
    if getattr(orig, "_verif_wrapped", False):
        return True

    def memoize(self, equation, arg):
        if not _active:
            return orig(self, equation, arg)
        memo = self.memo.get(equation)
        n0 = len(memo) if memo is not None else 0
        val = orig(self, equation, arg)
        memo = self.memo.get(equation)
        hit = True
        key = arg
        if memo is not None:
            if len(memo) > n0:
                hit = False
                try:
                    key = next(reversed(memo))
                    if memo[key] is not val:
                        key = min(memo, key=lambda k: abs(k - arg))
                except Exception:
                    key = arg
        ev = (equation, arg, key, hit, val)
        for r in list(_active):
            r.add(ev)
        return val

    memoize._verif_wrapped = True
    memoize.__wrapped__ = orig
    Model.memoize = memoize
    return True
