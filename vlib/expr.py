"""Expression ASTs shared by the SD checks.

An AST is a JSON-able nested list.  Two consumers:
  * to_dsl(ast, E)   applies the *real* Python operators / DSL functions to the
                     real Element objects in E (dict name -> Element), so that
                     Element.__sub__, Operator.__rsub__ ... are what is exercised;
  * ev(ast, env)     independent reference evaluation with ordinary Python
                     arithmetic; env supplies references, time and the stateful
                     built-ins, and collects the distance to the nearest
                     discontinuity (conditioning).
"""
import math
import operator

import numpy as np

BINOPS = {"+": operator.add, "-": operator.sub, "*": operator.mul, "/": operator.truediv,
          "**": operator.pow, "%": operator.mod}
CMPOPS = {"<": operator.lt, ">": operator.gt, "<=": operator.le, ">=": operator.ge,
          "==": operator.eq, "!=": operator.ne}


class IllConditioned(Exception):
    pass


class Env:
    """Reference environment for plain expression trees (C02/C10)."""

    def __init__(self, vals, t=0.0, vecs=None):
        self.vals = vals
        self.t = t
        self.vecs = vecs or {}
        self.min_dist = float("inf")

    def ref(self, name):
        return self.vals[name]

    def time(self):
        return self.t

    def cond(self, dist, scale=1.0):
        d = abs(dist) / max(1.0, abs(scale))
        if d < self.min_dist:
            self.min_dist = d

    def vec(self, name):
        return self.vecs[name]


TINY_OK = [False]   # set by the reference interpreter while it evaluates its perturbed twin (differences of perturbed values are tiny by construction)


def _num(x):
    if isinstance(x, complex):
        raise IllConditioned("complex")
    if isinstance(x, (bool, np.bool_)):
        return bool(x)
    x = float(x)
    if not math.isfinite(x):
        raise IllConditioned("non-finite")
    if x != 0 and (abs(x) > 1e12 or (abs(x) < 1e-9 and not TINY_OK[0])):
        raise IllConditioned("magnitude")
    return x


def mod_conditioning(x, r):
    """x % y inherits the ABSOLUTE rounding error of x (and |x/y| times that of y): a remainder that is tiny next to x carries no
    significant digits at the comparison tolerance (7e9 % 1.26: one ulp of the left operand moves the result by 2e-6)."""
    if abs(x) * 1e-13 > 1e-10 + 1e-9 * abs(r):
        raise IllConditioned("remainder tiny next to the dividend")


def ev(a, env):
    k = a[0]
    if k == "num":
        return a[1]
    if k == "ref":
        return env.ref(a[1])
    if k == "time":
        return env.time()
    if k == "bin":
        x, y = ev(a[2], env), ev(a[3], env)
        op = a[1]
        try:
            if op in ("/", "%"):
                if abs(y) < 1e-6:
                    raise IllConditioned("division by ~0")
            if op == "%":
                r = x % y
                # discontinuous where x/y is an integer
                q = x / y
                env.cond((q - round(q)) * y, max(abs(x), abs(y)))
                mod_conditioning(x, r)
                return _num(r)
            if op == "**":
                if x == 0 and y < 0:
                    raise IllConditioned("0**neg")
                if abs(y) > 64 or abs(x) > 1e6:
                    raise IllConditioned("power range")
            return _num(BINOPS[op](x, y))
        except (OverflowError, ZeroDivisionError, ValueError):
            raise IllConditioned("arith")
    if k == "neg":
        return _num(-ev(a[1], env))
    if k == "cmp":
        x, y = ev(a[2], env), ev(a[3], env)
        if not (isinstance(x, bool) and isinstance(y, bool)):
            env.cond(x - y, max(abs(x), abs(y)))
        return CMPOPS[a[1]](x, y)
    if k == "if":
        c = ev(a[1], env)
        if not isinstance(c, bool):
            env.cond(c)
        # both branches are evaluated by the reference for conditioning only
        return ev(a[2], env) if c else ev(a[3], env)
    if k == "and":
        x = ev(a[1], env)
        return (x and ev(a[2], env))
    if k == "or":
        x = ev(a[1], env)
        return (x or ev(a[2], env))
    if k == "not":
        x = ev(a[1], env)
        if not isinstance(x, bool):
            env.cond(x)
        return not x
    if k == "fn":
        n = a[1]
        if n == "round":
            x = ev(a[2], env)
            d = a[3]
            s = x * 10 ** d
            env.cond((s - math.floor(s)) - 0.5, 1.0)
            return _num(round(x, d))
        args = [ev(z, env) for z in a[2:]]
        if n == "min":
            env.cond(args[0] - args[1], max(abs(args[0]), abs(args[1])))
            return min(*args)
        if n == "max":
            env.cond(args[0] - args[1], max(abs(args[0]), abs(args[1])))
            return max(*args)
        if n == "abs":
            return abs(args[0])
        if n == "sqrt":
            if args[0] < 1e-6:
                raise IllConditioned("sqrt domain")
            return _num(math.sqrt(args[0]))
        if n == "exp":
            if abs(args[0]) > 25:
                raise IllConditioned("exp range")
            return _num(math.exp(args[0]))
        if n in ("sin", "cos", "tan") and abs(args[0]) > 1e3:
            # a large argument turns one ulp of difference in the argument (math.exp vs numpy.exp, summation order) into a visible difference
            raise IllConditioned("trigonometric function of a large argument")
        if n in ("sin", "cos"):
            return _num(getattr(math, n)(args[0]))
        if n == "tan":
            if abs(math.cos(args[0])) < 0.05:
                raise IllConditioned("tan pole")
            return _num(math.tan(args[0]))
        if n == "arctan":
            return _num(math.atan(args[0]))
        if n in ("arcsin", "arccos"):
            if abs(args[0]) > 0.999:
                raise IllConditioned("arc domain")
            return _num(math.asin(args[0]) if n == "arcsin" else math.acos(args[0]))
        if n in ("sinwave", "coswave"):
            # amplitude * sin|cos(2*pi*(t - start)/period); the environment supplies the start time
            if abs(args[1]) < 1e-3:
                raise IllConditioned("period")
            f = math.sin if n == "sinwave" else math.cos
            return _num(args[0] * f(2 * math.pi * (env.time() - getattr(env, "t0", 0.0)) / args[1]))
        raise KeyError(n)
    if k == "agg":
        v = np.array(env.vec(a[2]), dtype=float)
        n = a[1]
        if n == "dot":
            if v.ndim != 1:
                raise IllConditioned("dot of a matrix with itself is no single value")
            return _num(float(v @ v))       # the vector's dot product with itself
        if n == "sum":
            return _num(v.sum())
        if n == "prod":
            return _num(v.prod())
        if n == "mean":
            return _num(v.mean())
        if n == "median":
            return _num(float(np.median(v)))
        if n == "stddev":
            return _num(float(np.std(v)))
        if n == "size":
            return float(v.shape[0])
        if n == "rank":
            flat = sorted(v.flatten().tolist(), reverse=True)
            r = a[3]
            return flat[len(flat) - 1 if (r < 0 or r > len(flat)) else r - 1]
        raise KeyError(n)
    # stateful / model-level built-ins are delegated to the environment
    return env.builtin(a)


def to_dsl(a, E, model=None):
    """Build the DSL object for `a` with the real operator overloads."""
    import BPTK_Py.sddsl.functions as F
    k = a[0]
    if k == "num":
        return a[1]
    if k == "ref":
        return E[a[1]]
    if k == "time":
        return F.time()
    if k == "bin":
        return BINOPS[a[1]](to_dsl(a[2], E, model), to_dsl(a[3], E, model))
    if k == "neg":
        return -to_dsl(a[1], E, model)
    if k == "cmp":
        return CMPOPS[a[1]](to_dsl(a[2], E, model), to_dsl(a[3], E, model))
    if k == "if":
        return F.If(to_dsl(a[1], E, model), to_dsl(a[2], E, model), to_dsl(a[3], E, model))
    if k == "and":
        return F.And(to_dsl(a[1], E, model), to_dsl(a[2], E, model))
    if k == "or":
        return F.Or(to_dsl(a[1], E, model), to_dsl(a[2], E, model))
    if k == "not":
        return F.Not(to_dsl(a[1], E, model))
    if k == "fn":
        n = a[1]
        if n == "round":
            return F.round(to_dsl(a[2], E, model), a[3])
        return getattr(F, n)(*[to_dsl(z, E, model) for z in a[2:]])
    if k == "agg":
        el = E[a[2]]
        n = a[1]
        if n == "rank":
            return el.arr_rank(a[3])
        if n == "dot":
            return el.dot(el)
        return getattr(el, "arr_" + n)()
    if k == "lookup":
        return F.lookup(to_dsl(a[1], E, model), a[2])
    if k == "delay":
        return F.delay(model, E[a[1]], a[2], a[3]) if a[3] is not None else F.delay(model, E[a[1]], a[2])
    if k == "smooth":
        return F.smooth(model, to_dsl(a[1], E, model), a[2], a[3])
    if k == "trend":
        return F.trend(model, to_dsl(a[1], E, model), a[2], a[3])
    if k == "step":
        return F.step(a[1], a[2])
    if k == "pulse":
        return F.pulse(model, a[1], a[2], a[3])
    if k == "dt":
        return F.dt(model)
    if k == "starttime":
        return F.starttime(model)
    if k == "stoptime":
        return F.stoptime(model)
    raise KeyError(k)


def show(a):
    """Readable infix form (witness text only)."""
    k = a[0]
    if k == "num":
        return repr(a[1])
    if k == "ref":
        return a[1]
    if k == "time":
        return "time()"
    if k == "bin":
        return "(%s %s %s)" % (show(a[2]), a[1], show(a[3]))
    if k == "neg":
        return "(-%s)" % show(a[1])
    if k == "cmp":
        return "(%s %s %s)" % (show(a[2]), a[1], show(a[3]))
    if k == "if":
        return "If(%s, %s, %s)" % (show(a[1]), show(a[2]), show(a[3]))
    if k in ("and", "or"):
        return "%s(%s, %s)" % (k.capitalize(), show(a[1]), show(a[2]))
    if k == "not":
        return "Not(%s)" % show(a[1])
    if k == "fn":
        return "%s(%s)" % (a[1], ", ".join(show(z) if isinstance(z, list) else repr(z) for z in a[2:]))
    if k == "agg":
        return "%s.arr_%s(%s)" % (a[2], a[1], "" if len(a) < 4 else a[3])
    return "%s(%s)" % (k, ", ".join(show(z) if isinstance(z, list) and z and isinstance(z[0], str) else repr(z) for z in a[1:]))


def close(x, y, rel=1e-9, ab=1e-12):
    if isinstance(x, (bool, np.bool_)) and isinstance(y, (bool, np.bool_)):
        return bool(x) == bool(y)
    # a truth value on one side and a number on the other: compared as numbers (True counts as 1) - a numpy.bool_ where 2.0 is
    # expected is a difference, not an agreement of truthiness
    try:
        x = float(x)
        y = float(y)
    except (TypeError, ValueError):
        return False
    if math.isnan(x) or math.isnan(y):
        return False
    return abs(x - y) <= ab + rel * max(abs(x), abs(y))
