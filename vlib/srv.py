"""Shared harness pieces for the REST-server checks (C15-C20): controlled
clock, server factory, state fingerprint, torn-write failpoint."""
import copy
import datetime as _dt
import hashlib
import json
import os
import types


class Clock:
    """Controlled clock: the name `datetime` inside bptkServer and
    externalStateAdapter is rebound to a namespace whose datetime.now() returns
    a harness-controlled instant (the only time source of the instance manager)."""

    def __init__(self, start=None):
        self.now = start or _dt.datetime(2030, 1, 1, 12, 0, 0)
        self._saved = []
        self.reads = 0

    def advance(self, **kw):
        self.now = self.now + _dt.timedelta(**kw)

    def install(self):
        clock = self

        class FakeDateTime(_dt.datetime):
            @classmethod
            def now(cls, tz=None):
                clock.reads += 1
                n = clock.now
                return cls(n.year, n.month, n.day, n.hour, n.minute, n.second, n.microsecond)
        ns = types.SimpleNamespace(datetime=FakeDateTime, timedelta=_dt.timedelta, date=_dt.date, time=_dt.time)
        import BPTK_Py.server.bptkServer as S
        import BPTK_Py.externalstateadapter.externalStateAdapter as E
        for mod in (S, E):
            if hasattr(mod, "datetime"):
                self._saved.append((mod, mod.datetime))
                mod.datetime = ns
        return self

    def uninstall(self):
        for mod, orig in self._saved:
            mod.datetime = orig
        self._saved = []

    def __enter__(self):
        return self.install()

    def __exit__(self, *a):
        self.uninstall()


def make_model(start=1.0, stop=12.0, dt=1.0, name="srv", variant=0):
    from BPTK_Py import Model
    m = Model(starttime=start, stoptime=stop, dt=dt, name=name)
    return populate_model(m, variant)


def populate_model(m, variant=0):
    from BPTK_Py import sd_functions as sd
    stock, flow, outf = m.stock("stock"), m.flow("flow"), m.biflow("outflow")
    rate, cap = m.constant("rate"), m.constant("cap")
    lk = m.converter("lk")
    m.points["curve"] = [[0.0, 1.0 + variant], [5.0, 2.0], [20.0, 0.5]]
    rate.equation = 0.5 + 0.1 * variant
    cap.equation = 30.0
    lk.equation = sd.lookup(sd.time(), "curve")
    flow.equation = rate * stock * lk
    outf.equation = stock * stock / cap
    stock.initial_value = 2.0 + variant
    stock.equation = flow - outf
    # a converter chain that feeds no stock, read with a delay (requested only by the checks that name EQS_X)
    fee, billed = m.converter("fee"), m.converter("billed")
    tariff = m.constant("tariff")
    tariff.equation = 1.0
    fee.equation = tariff * 100.0 + lk
    billed.equation = sd.delay(m, fee, 2.0 * m.dt, 0.0)
    return m


EQS = ["stock", "flow", "rate", "lk"]
EQS_X = EQS + ["fee", "billed"]
MG, SC = "smSrv", "base"


def bptk_factory(start=1.0, stop=12.0, dt=1.0, shared_model=None, variant=0):
    from BPTK_Py import bptk

    def factory():
        b = bptk()
        m = shared_model if shared_model is not None else make_model(start, stop, dt, variant=variant)
        b.register_model(m, scenario_manager=MG, scenario={"base": {}, "alt": {"constants": {"rate": 0.25}},
                                                           # a scenario whose run specs differ from its model's
                                                           "fine": {"runspecs": {"dt": dt / 2.0}, "constants": {"cap": 25.0}}})
        return b
    return factory


def make_server(factory, state_dir=None, compress=False, token=None):
    from BPTK_Py.server import BptkServer
    adapter = None
    if state_dir is not None:
        from BPTK_Py.externalstateadapter import FileAdapter
        os.makedirs(state_dir, exist_ok=True)
        adapter = FileAdapter(compress, state_dir)
    app = BptkServer(__name__, factory, external_state_adapter=adapter, bearer_token=token)
    return app


def destroy_server(app):
    try:
        if app._bptk is not None:
            app._bptk.destroy()
        for inst in list(app._instance_manager._instances.values()):
            try:
                inst["instance"].destroy()
            except Exception:
                pass
    except Exception:
        pass


def bptk_fingerprint(b):
    out = {}
    for mname, mgr in sorted(b.scenario_manager_factory.scenario_managers.items()):
        for sname, sc in sorted(mgr.scenarios.items()):
            model = getattr(sc, "model", None)
            memo = getattr(model, "memo", {}) or {}
            out["%s/%s" % (mname, sname)] = dict(
                constants=copy.deepcopy(getattr(sc, "constants", None)), points=copy.deepcopy(getattr(sc, "points", None)),
                run=(getattr(sc, "starttime", None), getattr(sc, "stoptime", None), getattr(sc, "dt", None)),
                model_points=copy.deepcopy(getattr(model, "points", None)),
                sim_is_none=getattr(sc, "sd_simulation", None) is None,
                memo_size=sum(len(v) for v in memo.values()))
    out["session_state"] = copy.deepcopy(b.session_state)
    return out


def fingerprint(app, state_dir=None):
    fp = {"instances": {}}
    for iid, inst in sorted(app._instance_manager._instances.items()):
        fp["instances"][iid] = dict(time=str(inst["time"]), timeout=copy.deepcopy(inst["timeout"]), bptk=bptk_fingerprint(inst["instance"]))
    if app._bptk is not None:
        fp["default"] = bptk_fingerprint(app._bptk)
    if state_dir is not None and os.path.isdir(state_dir):
        fp["files"] = {f: hashlib.sha256(open(os.path.join(state_dir, f), "rb").read()).hexdigest() for f in sorted(os.listdir(state_dir))}
    return fp


def diff_fp(a, b, path=""):
    if type(a) != type(b):
        return path or "/"
    if isinstance(a, dict):
        for k in sorted(set(a) | set(b), key=str):
            if k not in a or k not in b:
                return "%s/%s (present on one side only)" % (path, k)
            d = diff_fp(a[k], b[k], "%s/%s" % (path, k))
            if d:
                return d
        return None
    if isinstance(a, (list, tuple)):
        if len(a) != len(b):
            return path + " (length)"
        for i, (x, y) in enumerate(zip(a, b)):
            d = diff_fp(x, y, "%s[%d]" % (path, i))
            if d:
                return d
        return None
    return None if a == b else path


class TornWrite(Exception):
    pass


class OpenFailpoint:
    """Rebinds the name `open` inside externalStateAdapter: files opened for
    writing (any of w, a, x, + in the mode) accept only the first `limit` bytes and then raise TornWrite."""

    def __init__(self, limit):
        self.limit = limit
        self.fired = 0

    def __enter__(self):
        import builtins
        import BPTK_Py.externalstateadapter.externalStateAdapter as E
        self.E = E
        fp = self

        def fake_open(path, mode="r", *a, **k):
            f = builtins.open(path, mode, *a, **k)
            if not any(ch in mode for ch in "wax+") or fp.limit is None:
                return f

            class Torn:
                def write(self_inner, data):
                    f.write(data[:fp.limit])
                    f.flush()
                    f.close()
                    fp.fired += 1
                    raise TornWrite("write torn after %d of %d bytes" % (min(fp.limit, len(data)), len(data)))

                def close(self_inner):
                    f.close()
            return Torn()
        self._had = "open" in E.__dict__
        self._old = E.__dict__.get("open")
        E.open = fake_open
        return self

    def __exit__(self, *a):
        if self._had:
            self.E.open = self._old
        else:
            del self.E.open


FILE_MODEL = """from BPTK_Py import Model
from vlib import srv


class simulation_model(Model):
    def __init__(self):
        super().__init__(starttime=1.0, stoptime=12.0, dt=1.0, name="srvfile")
        srv.populate_model(self)
"""


def write_scenario_files(tag):
    """File-based variant of bptk_factory(): ./models/<tag>.py + ./scenarios/<tag>.json (loaded by every bptk() started in this cwd).
    Returns a factory; remove_scenario_files(tag) deletes the files again."""
    os.makedirs("models", exist_ok=True)
    os.makedirs("scenarios", exist_ok=True)
    with open("models/%s.py" % tag, "w") as f:
        f.write(FILE_MODEL)
    with open("scenarios/%s.json" % tag, "w") as f:
        json.dump({MG: {"model": "models/%s" % tag, "base_constants": {"cap": 30.0}, "base_points": {"curve": [[0.0, 1.0], [5.0, 2.0], [20.0, 0.5]]},
                        "scenarios": {"base": {"constants": {"rate": 0.5}}, "alt": {"constants": {"rate": 0.25}},
                                      "fine": {"runspecs": {"dt": 0.5}, "constants": {"cap": 25.0, "rate": 0.5}}}}}, f)

    def factory():
        from BPTK_Py import bptk
        return bptk()
    return factory


def remove_scenario_files(tag):
    for f in ("models/%s.py" % tag, "scenarios/%s.json" % tag):
        try:
            os.remove(f)
        except OSError:
            pass
