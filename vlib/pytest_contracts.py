"""pytest plugin (-p vlib.pytest_contracts): runs the repository's own tests with
the ABM contracts switched on.  A contract that fires there is either too strict
(then it is corrected) or a defect the tests do not assert.  Evaluation counts
and violations are written to $VERIF_CONTRACT_LOG as JSON."""
import json
import os

_stats = {"registry_invariant": 0, "receive_event": 0, "collect_statistics": 0, "violations": []}


def _registry_ok(m):
    d = m.__dict__
    agents = d.get("agents")
    if agents is None:
        return True
    ids = [a.id for a in agents]
    if len(ids) != len(set(ids)):
        return "duplicate ids %r" % ids
    for t, lst in d.get("agent_type_map", {}).items():
        if sorted(lst) != sorted(a.id for a in agents if a.agent_type == t):
            return "type map of %s is %r, live ids are %r" % (t, lst, [a.id for a in agents if a.agent_type == t])
    if ids and d.get("next_agent_id", 0) <= max(ids):
        return "next_agent_id %r not above the largest id %r" % (d.get("next_agent_id"), max(ids))
    return True


def pytest_configure(config):
    from BPTK_Py.modeling.model import Model
    from BPTK_Py.modeling.agent import Agent
    from BPTK_Py.modeling.dataCollector import DataCollector
    import math

    def wrap_model(name):
        orig = getattr(Model, name)

        def wrapped(self, *a, **k):
            r = orig(self, *a, **k)
            _stats["registry_invariant"] += 1
            ok = _registry_ok(self)
            if ok is not True:
                _stats["violations"].append("Model.%s: %s" % (name, ok))
            return r
        setattr(Model, name, wrapped)
    for n in ("create_agent", "delete_agents", "configure_agents", "reset"):
        wrap_model(n)

    # (no contract on Agent.receive_event here: the repository's unit tests call it directly with events addressed to other
    #  ids, which is legitimate for a direct call; the routing contract belongs to the scheduler workload of C11)
    orig_collect = DataCollector.collect_agent_statistics

    def collect(self, time, agents):
        snap = [(a.agent_type, a.state, dict((k, v["value"]) for k, v in (a.properties or {}).items() if v.get("type") in ("Integer", "Double"))) for a in agents]
        r = orig_collect(self, time, agents)
        _stats["collect_statistics"] += 1
        exp = {}
        for (t, s, props) in snap:
            cell = exp.setdefault((t, s), {"count": 0, "vals": {}})
            cell["count"] += 1
            for k, v in props.items():
                cell["vals"].setdefault(k, []).append(v)
        got = self.agent_statistics.get(time, {})
        for (t, s), cell in exp.items():
            g = got.get(t, {}).get(s)
            if g is None or g.get("count") != cell["count"]:
                _stats["violations"].append("collect_agent_statistics: count of %s/%s at %r" % (t, s, time))
                continue
            for k, vals in cell["vals"].items():
                if len(set(map(type, vals))) > 1 or k not in g:
                    continue
                e = dict(total=math.fsum(vals), min=min(vals), max=max(vals), mean=math.fsum(vals) / len(vals))
                for key, v in e.items():
                    if g[k].get(key) is None or abs(g[k][key] - v) > 1e-9 * max(1.0, abs(v)):
                        _stats["violations"].append("collect_agent_statistics: %s of %s/%s.%s at %r is %r, population gives %r" % (key, t, s, k, time, g[k].get(key), v))
        return r
    DataCollector.collect_agent_statistics = collect


def pytest_sessionfinish(session, exitstatus):
    p = os.environ.get("VERIF_CONTRACT_LOG")
    if p:
        with open(p, "w") as f:
            json.dump(_stats, f)
