"""Controlled line-level scheduler.

Participant threads run ONE AT A TIME (baton passing on a condition variable).
sys.monitoring LINE events on a chosen set of code objects are the yield
points: at each one the running participant asks the schedule which
participant continues.  Only interleavings the interpreter could produce are
generated (a LINE boundary is always a legal preemption point); preemptions
inside a line are not.

A schedule is a list of preemptions [(decision_index, thread_index), ...]:
at decision #i hand the baton to thread j; everywhere else the current thread
continues, and when a thread ends the lowest-index runnable one continues.
The recorded trace [(decision_index, current, runnable, where)] is what the
enumerator extends, and the schedule itself is the replay artefact.
"""
import sys
import threading
import time

TOOL = 4


class Stuck(Exception):
    pass


class LineScheduler:
    def __init__(self, codes, expected, schedule=(), line_filter=None, wait_s=5.0, total_s=30.0):
        """codes: iterable of code objects to monitor; expected: number of
        participant threads (start barrier); line_filter(code, line)->bool."""
        self.codes = list(codes)
        self.expected = expected
        self.schedule = {int(i): int(t) for i, t in schedule}
        self.line_filter = line_filter
        self.wait_s, self.total_s = wait_s, total_s
        self.cv = threading.Condition()
        self.parts = {}          # thread ident -> index
        self.state = {}          # index -> "waiting" | "running" | "done"
        self.current = None
        self.started = False
        self.decisions = 0
        self.trace = []
        self.preemptions_applied = 0
        self.stuck = None
        self.t0 = None
        self._next_index = 0
        self._orig_start = None
        self._orig_run = None
        self.active = False

    # ------------------------------------------------------------------
    def __enter__(self):
        mon = sys.monitoring
        try:
            mon.use_tool_id(TOOL, "linesched")
        except ValueError:
            mon.free_tool_id(TOOL)
            mon.use_tool_id(TOOL, "linesched")
        for c in self.codes:
            mon.set_local_events(TOOL, c, mon.events.LINE)
        mon.register_callback(TOOL, mon.events.LINE, self._on_line)
        self._orig_start = threading.Thread.start
        sched = self

        def start(th):
            if sched.active and threading.current_thread().ident not in sched.parts:
                # started by a non-participant (the main thread): becomes a participant
                with sched.cv:
                    idx = sched._next_index
                    sched._next_index += 1
                orig_run = th.run

                def run():
                    sched._enter(idx)
                    try:
                        orig_run()
                    finally:
                        sched._leave(idx)
                th.run = run
            return sched._orig_start(th)
        threading.Thread.start = start
        self.active = True
        self.t0 = time.time()
        return self

    def __exit__(self, *a):
        self.active = False
        threading.Thread.start = self._orig_start
        mon = sys.monitoring
        for c in self.codes:
            mon.set_local_events(TOOL, c, 0)
        mon.register_callback(TOOL, mon.events.LINE, None)
        mon.free_tool_id(TOOL)
        # release anything still parked
        with self.cv:
            self.current = "released"
            self.cv.notify_all()

    # ------------------------------------------------------------------
    def _runnable(self):
        return sorted(i for i, s in self.state.items() if s != "done")

    def _wait_turn(self, idx):
        # caller holds self.cv
        while self.current != idx:
            if self.current == "released" or not self.active:
                return
            if not self.cv.wait(self.wait_s) and self.current != idx:
                if time.time() - self.t0 > self.total_s or True:
                    self.stuck = "thread %d waited >%.0fs for the baton (current=%r, states=%r)" % (idx, self.wait_s, self.current, self.state)
                    self.current = "released"
                    self.cv.notify_all()
                    return

    def _enter(self, idx):
        with self.cv:
            self.parts[threading.current_thread().ident] = idx
            self.state[idx] = "waiting"
            if not self.started and len(self.state) >= self.expected:
                self.started = True
                self.current = min(self.state)
                self.cv.notify_all()
            self._wait_turn(idx)
            self.state[idx] = "running"

    def _leave(self, idx):
        with self.cv:
            self.state[idx] = "done"
            if self.current == idx:
                r = self._runnable()
                self.current = r[0] if r else None
                self.cv.notify_all()

    def yield_to(self, me, target):
        """Forced switch (not a preemption of the schedule): `me` cannot continue until `target` has made progress."""
        with self.cv:
            if self.current != me:
                return
            runnable = self._runnable()
            if target not in runnable:
                target = next((t for t in runnable if t != me), None)
            if target is None:
                self.stuck = "thread %d blocks on a lock nobody can release" % me
                self.current = "released"
                self.cv.notify_all()
                return
            self.forced_switches = getattr(self, "forced_switches", 0) + 1
            self.state[me] = "waiting"
            self.current = target
            self.cv.notify_all()
            self._wait_turn(me)
            self.state[me] = "running"

    def _on_line(self, code, line):
        if not self.active:
            return
        idx = self.parts.get(threading.current_thread().ident)
        if idx is None or self.current == "released":
            return
        if self.line_filter is not None and not self.line_filter(code, line):
            return
        with self.cv:
            if self.current != idx:
                # can only happen after a release; do not interfere
                return
            d = self.decisions
            self.decisions += 1
            runnable = self._runnable()
            if len(self.trace) < 20000:
                self.trace.append((d, idx, runnable, (code.co_name, line)))
            target = self.schedule.get(d)
            if target is not None and target != idx and target in runnable:
                self.preemptions_applied += 1
                self.state[idx] = "waiting"
                self.current = target
                self.cv.notify_all()
                self._wait_turn(idx)
                self.state[idx] = "running"


class SchedLock:
    """Scheduler-aware stand-in for a real threading.Lock held by the code under test.  A participant that finds
    the lock taken hands the baton to the owner instead of blocking the (single-runner) schedule; acquisition order
    is therefore decided by the schedule, as with every other shared-state access."""

    def __init__(self, sched):
        self.sched = sched
        self.owner = None
        self._real = threading.RLock()

    def acquire(self, blocking=True, timeout=-1):
        s = self.sched
        me = s.parts.get(threading.current_thread().ident)
        if me is None or not s.active:
            return self._real.acquire(blocking) if timeout == -1 else self._real.acquire(blocking, timeout)
        spins = 0
        while self.owner is not None and self.owner != me:
            if not blocking:
                return False
            spins += 1
            if spins > 10000 or s.current == "released":
                raise Stuck("SchedLock never released")
            s.yield_to(me, self.owner)
        self.owner = me
        return True

    def release(self):
        s = self.sched
        me = s.parts.get(threading.current_thread().ident)
        if me is None or not s.active:
            try:
                self._real.release()
            except RuntimeError:
                pass
            return
        self.owner = None

    def locked(self):
        return self.owner is not None

    __enter__ = acquire

    def __exit__(self, *a):
        self.release()


def model_locks(sched, *objs):
    """Replace every threading.Lock / RLock attribute of the given objects by a SchedLock. Returns the names replaced."""
    lock_types = (type(threading.Lock()), type(threading.RLock()))
    done = []
    for o in objs:
        for name, v in list(vars(o).items()):
            if isinstance(v, lock_types):
                setattr(o, name, SchedLock(sched))
                done.append("%s.%s" % (type(o).__name__, name))
    return done


class lock_factories:
    """Context manager: inside the given modules the names threading / Lock / RLock create scheduler-aware locks, so that a
    lock the code under test creates lazily DURING a schedule (instead of holding it as an attribute beforehand) does not park
    a participant outside the scheduler's control."""

    def __init__(self, sched, *modules):
        self.sched, self.modules, self.saved = sched, modules, []

    def __enter__(self):
        sched = self.sched

        class Shim:
            def __getattr__(self_inner, name):
                return getattr(threading, name)

            def Lock(self_inner):
                return SchedLock(sched)

            def RLock(self_inner):
                return SchedLock(sched)
        shim = Shim()
        for mod in self.modules:
            for name, repl in (("threading", shim), ("Lock", shim.Lock), ("RLock", shim.RLock)):
                if name in vars(mod):
                    self.saved.append((mod, name, vars(mod)[name]))
                    setattr(mod, name, repl)
        return self

    def __exit__(self, *a):
        for mod, name, old in self.saved:
            setattr(mod, name, old)
        self.saved = []


def all_code_objects(*funcs):
    """code objects of the given functions including nested ones (co_consts)."""
    out = []

    def walk(c):
        out.append(c)
        for k in c.co_consts:
            if hasattr(k, "co_code"):
                walk(k)
    for f in funcs:
        f = getattr(f, "__wrapped__", f)
        c = getattr(f, "__code__", None)
        if c is not None:
            walk(c)
    return out


def alternatives(trace, only=None):
    """[(decision index, alternative thread)] for every decision with a choice (optionally only at the given
    (function name, line) yield points)."""
    out = []
    for (d, cur, runnable, where) in trace:
        if only is not None and tuple(where) not in only:
            continue
        for t in runnable:
            if t != cur:
                out.append((d, t))
    return out
