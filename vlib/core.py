"""Driver shared by all checks: sharding, three-valued verdicts, known
findings, replay files, evidence files.

A check module (checks/cNN.py) defines
    ID, LEVEL, RULE, ASSUMPTIONS, TECHNIQUE
    gen_cases(tier, seed)  -> list of JSON-able case dicts (deterministic)
    run_case(case)         -> dict(verdict=held|violated|rejected|illcond|inconclusive,
                                   nt=<hashable key or None>, mech=<mechanism key or None>,
                                   witness=<json-able>, counters={name: int})
and optionally
    REQUIRED = {counter: minimum}    zero/low => inconclusive, never held
    worker_init()                    once per worker process
    finalize(agg) -> dict            extra coverage keys
    EXHAUSTIVE(tier) -> bool
"""
import argparse
import atexit
import hashlib
import importlib
import json
import os
import shutil
import subprocess
import sys
import tempfile
import time
import traceback

HOME = os.environ["VERIF_HOME"]
REPO = os.environ["VERIF_REPO"]
NCPU = 16

EXIT_HELD, EXIT_VIOLATION, EXIT_INCONCLUSIVE = 0, 1, 3


def load_check(cid):
    return importlib.import_module("checks.%s" % cid.lower())


def enter_scratch():
    """Fresh cwd with an empty scenarios/ folder (bptk() scans ./scenarios and
    appends to ./bptk_py.log); removed at exit."""
    d = tempfile.mkdtemp(prefix="bptkverif_")
    os.makedirs(os.path.join(d, "scenarios"))
    os.chdir(d)
    sys.path.insert(2, d)
    atexit.register(shutil.rmtree, d, True)
    return d


def jsonable(x):
    try:
        json.dumps(x)
        return x
    except Exception:
        return json.loads(json.dumps(x, default=repr))


def known_findings():
    p = os.path.join(HOME, "known_findings.json")
    if not os.path.exists(p):
        return []
    return json.load(open(p))["findings"]


# --------------------------------------------------------------------------
# worker
# --------------------------------------------------------------------------

def run_shard(mod, cases, idx, n, budget_s):
    agg = dict(verdicts={}, nt=set(), counters={}, violations=[], samples=[],
               done=0, skipped_budget=0)
    t0 = time.time()
    if hasattr(mod, "worker_init"):
        mod.worker_init()
    mine = cases[idx::n]
    for case in mine:
        if time.time() - t0 > budget_s:
            agg["skipped_budget"] += 1
            continue
        try:
            r = mod.run_case(case)
        except Exception:
            r = dict(verdict="inconclusive", witness=dict(harness_error=traceback.format_exc()[-2000:]))
        v = r.get("verdict", "inconclusive")
        agg["verdicts"][v] = agg["verdicts"].get(v, 0) + 1
        agg["done"] += 1
        nts = r.get("nt")
        if nts is not None:
            if not isinstance(nts, (list, set, tuple)) or (isinstance(nts, tuple)):
                nts = [nts]
            for k in nts:
                agg["nt"].add(json.dumps(jsonable(k), sort_keys=True) if not isinstance(k, str) else k)
        for k, c in (r.get("counters") or {}).items():
            agg["counters"][k] = agg["counters"].get(k, 0) + c
        if v == "violated" and len(agg["violations"]) < 200:
            agg["violations"].append(dict(case=case, mech=r.get("mech"), witness=jsonable(r.get("witness"))))
        elif v == "inconclusive" and len(agg.setdefault("inconclusive", [])) < 5:
            agg["inconclusive"].append(dict(case=case, witness=jsonable(r.get("witness"))))
        if len(agg["samples"]) < 2 and v in ("held", "rejected"):
            agg["samples"].append(dict(case=case, verdict=v, observed=jsonable(r.get("sample"))))
    agg["nt"] = sorted(agg["nt"])
    return agg


# --------------------------------------------------------------------------
# parent
# --------------------------------------------------------------------------

def main(argv):
    ap = argparse.ArgumentParser()
    ap.add_argument("id")
    ap.add_argument("--tier", default=os.environ.get("VERIF_TIER", "quick"), choices=["quick", "thorough"])
    ap.add_argument("--seed", type=int, default=int(os.environ.get("VERIF_SEED", "0") or 0))
    ap.add_argument("--replay")
    ap.add_argument("--shard")
    ap.add_argument("--out")
    ap.add_argument("--jobs", type=int, default=int(os.environ.get("VERIF_JOBS", NCPU)))
    ap.add_argument("--no-evidence", action="store_true")
    a = ap.parse_args(argv)
    cid = a.id.upper()
    mod = load_check(cid)

    if a.replay:
        rep = json.load(open(a.replay))
        enter_scratch()
        if hasattr(mod, "worker_init"):
            mod.worker_init()
        r = mod.run_case(rep["case"])
        print(json.dumps(jsonable(dict(case=rep["case"], result=r)), indent=1, sort_keys=True))
        if r.get("verdict") == "violated":
            print("VIOLATION property=%s replay=%s" % (cid, a.replay))
            return EXIT_VIOLATION
        return EXIT_HELD if r.get("verdict") != "inconclusive" else EXIT_INCONCLUSIVE

    if a.shard:
        enter_scratch()
        i, n = [int(x) for x in a.shard.split("/")]
        cases = mod.gen_cases(a.tier, a.seed)
        budget = getattr(mod, "BUDGET_S", {"quick": 100, "thorough": 1500})[a.tier]
        agg = run_shard(mod, cases, i, n, budget)
        with open(a.out, "w") as f:
            json.dump(agg, f)
        return 0

    t0 = time.time()
    cases = mod.gen_cases(a.tier, a.seed)
    n = max(1, min(a.jobs, len(cases)))
    budget = getattr(mod, "BUDGET_S", {"quick": 100, "thorough": 1500})[a.tier]
    tmpd = tempfile.mkdtemp(prefix="bptkverif_par_")
    procs = []
    for i in range(n):
        out = os.path.join(tmpd, "s%d.json" % i)
        cmd = [sys.executable, os.path.join(HOME, "vlib", "main.py"), cid, "--tier", a.tier,
               "--seed", str(a.seed), "--shard", "%d/%d" % (i, n), "--out", out]
        procs.append((subprocess.Popen(cmd, stdout=subprocess.PIPE, stderr=subprocess.STDOUT), out))
    dead = []
    aggs = []
    deadline = t0 + budget * 1.5 + 120
    for p, out in procs:
        try:
            so, _ = p.communicate(timeout=max(1, deadline - time.time()))
        except subprocess.TimeoutExpired:
            p.kill()
            so, _ = p.communicate()
            dead.append("watchdog: " + out)
            continue
        if p.returncode != 0 or not os.path.exists(out):
            dead.append("shard died rc=%s: %s" % (p.returncode, so.decode(errors="replace")[-1500:]))
            continue
        aggs.append(json.load(open(out)))
    shutil.rmtree(tmpd, True)

    verdicts, counters, nt, violations, samples, inconc = {}, {}, set(), [], [], []
    done = skipped = 0
    for g in aggs:
        for k, c in g["verdicts"].items():
            verdicts[k] = verdicts.get(k, 0) + c
        for k, c in g["counters"].items():
            counters[k] = counters.get(k, 0) + c
        nt.update(g["nt"])
        violations += g["violations"]
        samples += g["samples"]
        inconc += g.get("inconclusive", [])
        done += g["done"]
        skipped += g["skipped_budget"]

    # classify violations against the committed known-findings file
    kf = {(f["property"], f["key"]): f for f in known_findings()}
    new_viol, known_hits = [], {}
    for v in violations:
        f = kf.get((cid, v.get("mech")))
        if f is not None and f.get("status") == "known":
            known_hits.setdefault(v["mech"], []).append(v)
        else:
            new_viol.append(v)

    problems = list(dead)
    if skipped:
        problems.append("%d cases skipped: shard time budget exhausted" % skipped)
    for k, m in getattr(mod, "REQUIRED", {}).items():
        if counters.get(k, 0) < m:
            problems.append("monitor counter %s=%d below required %d" % (k, counters.get(k, 0), m))
    if verdicts.get("inconclusive"):
        problems.append("%d inconclusive cases, e.g. %s" % (verdicts["inconclusive"], json.dumps(inconc[:1])[:1500]))
    if done == 0:
        problems.append("no case executed")

    extra = {}
    if hasattr(mod, "finalize"):
        try:
            extra = mod.finalize(dict(verdicts=verdicts, counters=counters, nt=nt, tier=a.tier)) or {}
        except Exception:
            problems.append("finalize failed: " + traceback.format_exc()[-800:])

    replays = []
    os.makedirs(os.path.join(HOME, "evidence", "replays"), exist_ok=True)
    seen_mech = {}
    for v in new_viol:
        m = v.get("mech") or "unclassified"
        seen_mech[m] = seen_mech.get(m, 0) + 1
        if seen_mech[m] > 3:
            continue
        dig = hashlib.sha1(json.dumps(v["case"], sort_keys=True).encode()).hexdigest()[:12]
        path = os.path.join(HOME, "evidence", "replays", "%s-%s.json" % (cid, dig))
        with open(path, "w") as f:
            json.dump(dict(property=cid, case=v["case"], mech=v.get("mech"), witness=v["witness"]), f, indent=1)
        replays.append(path)
        print("VIOLATION property=%s replay=%s" % (cid, path))
        print("  mechanism=%s witness=%s" % (m, json.dumps(v["witness"])[:700]))
    for m, c in seen_mech.items():
        if c > 3:
            print("  (+%d more violations with mechanism %s)" % (c - 3, m))
    for m, vs in sorted(known_hits.items()):
        print("KNOWN-FINDING: property=%s %s (%d cases this run; %s)" % (cid, m, len(vs), kf[(cid, m)].get("what", "")))

    wall = time.time() - t0
    cov = dict(
        evaluations=done,
        distinct_nontrivial=len(nt),
        rule=mod.RULE,
        samples=samples[:4] or [dict(case=c) for c in cases[:2]],
        verdict_counts=verdicts,
        monitor_counters={k: v for k, v in counters.items() if not k.startswith(("cov:", "ir:"))},
        shards=n,
        known_finding_hits={m: len(v) for m, v in known_hits.items()},
        new_violation_mechanisms=seen_mech,
        inconclusive_reasons=problems,
    )
    if hasattr(mod, "EXHAUSTIVE"):
        cov["exhaustive"] = bool(mod.EXHAUSTIVE(a.tier)) and not skipped and not dead
    cov.update(extra)
    ev = dict(property_id=cid, tier=a.tier, seed=a.seed, level=mod.LEVEL, coverage=jsonable(cov),
              assumptions=list(getattr(mod, "ASSUMPTIONS", [])), wall_s=round(wall, 2),
              violations=len(new_viol))
    if not a.no_evidence:
        evp = os.path.join(HOME, "evidence", "%s.json" % cid)
        with open(evp, "w") as f:
            json.dump(ev, f, indent=1, sort_keys=True)
        try:
            import jsonschema
            jsonschema.validate(ev, json.load(open("/root/.vp/EVIDENCE.schema.json")))
        except ImportError:
            pass
        except Exception as e:  # schema problems are harness problems
            problems.append("evidence does not validate: %s" % str(e)[:300])

    summary = "%s tier=%s seed=%d cases=%d verdicts=%s distinct_nontrivial=%d wall=%.1fs" % (
        cid, a.tier, a.seed, done, json.dumps(verdicts, sort_keys=True), len(nt), wall)
    print(summary)
    print("  monitors: " + json.dumps({k: v for k, v in counters.items() if not k.startswith(("cov:", "ir:"))}, sort_keys=True)[:1500])
    if new_viol:
        return EXIT_VIOLATION
    if problems:
        for p in problems:
            print("INCONCLUSIVE property=%s %s" % (cid, p))
        return EXIT_INCONCLUSIVE
    print("HELD property=%s on everything explored" % cid)
    return EXIT_HELD
