"""XMILE document writer and equation printer (harness side).

Equations use the vlib.expr AST (["bin", op, a, b] with op in + - * / ** %,
["neg", a], ["cmp", op, a, b], ["if", c, a, b], ["and"|"or", a, b], ["not", a],
["fn", name, args...], ["ref", name], ["num", x], ["time"|"dt"|"starttime"|"stoptime"]).
The printer emits only the parentheses XMILE needs (plus, optionally, redundant
ones) so that operator precedence really is exercised.
"""
import random
from xml.sax.saxutils import escape

XOP = {"+": "+", "-": "-", "*": "*", "/": "/", "**": "^", "%": "MOD"}
XCMP = {"<": "<", ">": ">", "<=": "<=", ">=": ">=", "==": "=", "!=": "<>"}
# binding strength (higher binds tighter)
PREC = {"or": 1, "and": 2, "cmp": 4, "+": 5, "-": 5, "*": 6, "/": 6, "%": 6, "neg": 7, "**": 8, "atom": 10}


class Style:
    """Spelling choices that must not change the meaning."""

    def __init__(self, rng=None, redundant=0.0, spaces=True, case="upper", names=None, bare_if=False):
        self.bare_if = bare_if
        self.rng = rng or random.Random(0)
        self.redundant = redundant
        self.spaces = spaces
        self.case = case
        self.names = names or {}

    def kw(self, w):
        if self.case == "upper":
            return w.upper()
        if self.case == "lower":
            return w.lower()
        return "".join(c.upper() if self.rng.random() < 0.5 else c.lower() for c in w)

    def sp(self):
        if self.spaces is True:
            return " "
        if self.spaces is False:
            return ""
        return " " * self.rng.randint(0, 3)

    def name(self, n):
        return self.names.get(n, n)


def prec_of(a):
    k = a[0]
    if k == "bin":
        return PREC[a[1]]
    if k == "neg":
        return PREC["neg"]
    if k == "cmp":
        return PREC["cmp"]
    if k in ("and", "or"):
        return PREC[k]
    if k == "num" and a[1] < 0:
        return PREC["neg"]
    if k == "if":
        return 0
    return PREC["atom"]


def pr(a, st=None, parent=0, side=None):
    """Print `a` for a context that needs binding strength > parent (or >= on the left side of a left-assoc op)."""
    st = st or Style()
    k = a[0]
    s = st.sp()
    if k == "num":
        x = a[1]
        txt = repr(float(x)) if float(x) != int(x) or abs(x) >= 1e15 else str(int(x))
        if "e" in txt or "E" in txt:
            txt = "%.12f" % x
        out = txt
    elif k == "ref":
        out = st.name(a[1])
    elif k in ("time", "dt", "starttime", "stoptime", "pi"):
        out = st.kw(k)
    elif k == "bin":
        op = a[1]
        p = PREC[op]
        # all binary operators are printed left-associative: the right operand needs strictly higher strength,
        # and chains of ^ are always parenthesised explicitly (their associativity is not fixed by the property)
        left = pr(a[2], st, p - 1 if op != "**" else p, "l")
        if st.bare_if and op in ("+", "-") and parent == 0 and a[3][0] == "if":
            # at sentence level the grammar takes an unparenthesised IF as the right operand of + and - (it extends to the end of the sentence)
            right = pr(a[3], st, 0, "r")
        else:
            right = pr(a[3], st, p, "r")
        o = XOP[op]
        if o == "MOD":
            o = st.kw("MOD")
            out = left + " " + o + " " + right
        else:
            out = left + s + o + s + right
    elif k == "neg":
        out = "-" + pr(a[1], st, PREC["neg"], "r")
    elif k == "cmp":
        out = pr(a[2], st, PREC["cmp"], "l") + s + XCMP[a[1]] + s + pr(a[3], st, PREC["cmp"], "r")
    elif k in ("and", "or"):
        p = PREC[k]
        out = pr(a[1], st, p - 1, "l") + " " + st.kw(k) + " " + pr(a[2], st, p, "r")
    elif k == "not":
        out = st.kw("NOT") + "(" + pr(a[1], st, 0) + ")"      # the grammar wants NOT( without a blank
    elif k == "if":
        out = st.kw("IF") + " " + pr(a[1], st, 0) + " " + st.kw("THEN") + " " + pr(a[2], st, 0) + " " + st.kw("ELSE") + " " + pr(a[3], st, 0)
    elif k == "fn":
        nm = {"sqrt": "SQRT", "abs": "ABS", "min": "MIN", "max": "MAX", "exp": "EXP", "int": "INT", "ln": "LN", "log10": "LOG10",
              "sin": "SIN", "cos": "COS", "tan": "TAN", "safediv": "SAFEDIV", "round": "ROUND", "percent": "PERCENT",
              "step": "STEP", "ramp": "RAMP"}.get(a[1], a[1].upper())
        args = [pr(z, st, 0) if isinstance(z, list) else str(z) for z in a[2:]]
        out = st.kw(nm) + "(" + ("," + s).join(args) + ")"
    elif k == "call":
        args = [pr(z, st, 0) if isinstance(z, list) else str(z) for z in a[2:]]
        out = st.kw(a[1]) + "(" + ("," + s).join(args) + ")"
    elif k == "raw":
        return a[1]
    else:
        raise KeyError(k)
    need = prec_of(a) <= parent if k != "if" else parent > 0
    if k == "neg" or (k == "num" and a[1] < 0):
        # a unary minus may only start an expression or follow "(" in this grammar
        need = need or side == "r" or parent >= PREC["*"]
    # redundant parentheses only around arithmetic: the grammar has no parenthesised boolean groups
    if need or (st.redundant and st.rng.random() < st.redundant and k in ("bin", "neg", "call", "fn", "if", "time")):
        out = "(" + s + out + s + ")"
    return out


def _variables(elements, out):
    for e in elements:
        k = e["kind"]
        if k == "module":
            cons = "".join('<connect to="%s" from="%s"/>' % (escape(t, {'"': "&quot;"}), escape(f, {'"': "&quot;"})) for (t, f) in e.get("connects", []))
            out.append('<module name="%s">%s</module>' % (escape(e["name"], {'"': "&quot;"}), cons))
            continue
        out.append('<%s name="%s"%s>' % (k, escape(e["name"], {'"': "&quot;"}), ' access="%s"' % e["access"] if e.get("access") else ""))
        out.append('<eqn>%s</eqn>' % escape(e["eqn"]))
        for f in e.get("inflows", []):
            out.append('<inflow>%s</inflow>' % escape(f))
        for f in e.get("outflows", []):
            out.append('<outflow>%s</outflow>' % escape(f))
        if e.get("non_negative"):
            out.append('<non_negative/>')
        gf = e.get("gf")
        if gf:
            out.append('<gf>')
            if "xpts" in gf:
                out.append('<xscale min="%s" max="%s"/>' % (gf["xpts"][0], gf["xpts"][-1]))
                out.append('<yscale min="%s" max="%s"/>' % (min(gf["ypts"]), max(gf["ypts"])))
                out.append('<xpts>%s</xpts>' % ",".join(str(x) for x in gf["xpts"]))
            else:
                out.append('<xscale min="%s" max="%s"/>' % tuple(gf["xscale"]))
                out.append('<yscale min="%s" max="%s"/>' % (min(gf["ypts"]), max(gf["ypts"])))
            out.append('<ypts>%s</ypts>' % ",".join(str(y) for y in gf["ypts"]))
            out.append('</gf>')
        out.append('</%s>' % k)


def document(name, run, elements, reciprocal=None, modules=None, connects=None, modules_first=False):
    """elements: list of dict(kind=stock|flow|aux, name, eqn=str, inflows=[], outflows=[], non_negative=bool,
    gf=dict(xscale=(min,max), ypts=[..]) | dict(xpts=[..], ypts=[..]))
    modules: optional {module name: elements}: further <model name=..> sections; the root model declares them."""
    out = ['<?xml version="1.0" encoding="utf-8"?>',
           '<xmile version="1.0" xmlns="http://docs.oasis-open.org/xmile/ns/XMILE/v1.0" xmlns:isee="http://iseesystems.com/XMILE">',
           '<header><smile version="1.0" namespace="std, isee"/><name>%s</name><uuid>00000000-0000-0000-0000-000000000000</uuid>'
           '<vendor>verif</vendor><product version="1.0" lang="en">verif</product></header>' % escape(name),
           '<sim_specs method="Euler" time_units="Months">',
           '<start>%s</start><stop>%s</stop>' % (run["start"], run["stop"])]
    if reciprocal:
        out.append('<dt reciprocal="true">%d</dt>' % reciprocal)
    else:
        out.append('<dt>%s</dt>' % run["dt"])
    out.append('</sim_specs>')
    root, subs = [], []
    root.append('<model><variables>')
    _variables([dict(kind="module", name=mn, connects=(connects or {}).get(mn, [])) for mn in (modules or {})] + list(elements), root)
    root.append('</variables></model>')
    for mn, els in (modules or {}).items():
        subs.append('<model name="%s"><variables>' % escape(mn, {'"': "&quot;"}))
        _variables(els, subs)
        subs.append('</variables></model>')
    # connects: {module name: [(to, from), ...]}; modules_first lists the sub-models before the model that contains their <module>
    out += (subs + root) if modules_first else (root + subs)
    out.append('</xmile>')
    return "\n".join(out)


def gf_points(gf):
    if "xpts" in gf:
        return [[float(x), float(y)] for x, y in zip(gf["xpts"], gf["ypts"])]
    lo, hi = gf["xscale"]
    n = len(gf["ypts"])
    return [[lo + k * (hi - lo) / (n - 1), float(y)] for k, y in enumerate(gf["ypts"])]


_compiled = {}


def compile_and_load(xml_text, workdir, modname):
    """Real pipeline: compile_xmile(src, dest, 'py'), import, return the simulation_model class."""
    import importlib.util
    import os
    from BPTK_Py.sdcompiler.compile import compile_xmile
    src = os.path.join(workdir, modname + ".stmx")
    dest = os.path.join(workdir, modname + ".py")
    with open(src, "w") as f:
        f.write(xml_text)
    compile_xmile(src, dest, "py")
    spec = importlib.util.spec_from_file_location(modname, dest)
    mod = importlib.util.module_from_spec(spec)
    spec.loader.exec_module(mod)
    return mod.simulation_model, src, dest
