import os
import sys

HOME = os.environ.get("VERIF_HOME") or os.path.dirname(os.path.dirname(os.path.abspath(__file__)))
REPO = os.environ.get("VERIF_REPO", "/repo")
# /repo's working tree first (pure Python: re-import = rebuild), then /verif,
# third-party monitor libraries last so that they never shadow /venv packages.
sys.path[:] = [p for p in sys.path if p not in ("", HOME, REPO)]
sys.path.insert(0, REPO)
sys.path.insert(1, HOME)
sys.path.append(os.path.join(HOME, ".deps"))
os.environ["VERIF_HOME"] = HOME
os.environ["VERIF_REPO"] = REPO

from vlib import core  # noqa: E402

if __name__ == "__main__":
    sys.exit(core.main(sys.argv[1:]))
