"""Instrumented Model / Agent / DataCollector subclasses for the ABM checks.
All instrumentation is in harness subclasses - callbacks the framework itself
invokes - so the verdicts are taken at the public extension boundary."""
import copy

from BPTK_Py import Agent, DataCollector, Model, SimultaneousScheduler
from BPTK_Py import Event, DelayedEvent

STATES = ["active", "idle", "busy"]


class LogCollector(DataCollector):
    def __init__(self):
        super().__init__()
        self.log = None

    def collect_agent_statistics(self, time, agents):
        if self.log is not None:
            self.log.append(("collect", time, [(a.id, a.agent_type, a.state, copy.deepcopy(a.properties)) for a in agents]))
        return super().collect_agent_statistics(time, agents)


_tokens = [0]


class Notice(Event):
    """a user-defined kind of event"""


class Shipment(DelayedEvent):
    """a user-defined kind of delayed event"""


class LogAgent(Agent):
    def initialize(self):
        _tokens[0] += 1
        self.token = _tokens[0]          # identity of this agent object, independent of the id the model gave it
        for st in STATES:
            self.register_event_handler([st], "ping", self._on_ping)
            self.register_event_handler([st], "pong", self._on_ping)

    def _on_ping(self, event):
        self.model.log.append(("handled", self.id, event.data, event.name, event.receiver_id, self.token))

    def handle_events(self, time, sim_round, step):
        self.model.log.append(("handle", self.id, time, self.state))
        return super().handle_events(time, sim_round, step)

    def act(self, time, sim_round, step):
        self.model.log.append(("act", self.id, time))
        m = self.model
        k = m.step_counter
        # scripted sends: script["send"][k] = [(sender_id, receiver_id, delay or None, uid), ...]
        for (snd, rcv, delay, uid) in m.script.get("send", {}).get(str(k), []):
            if snd == self.id:
                if delay is None:
                    ev = (Event if uid % 3 else Notice)("ping", self.id, rcv, data=uid)
                else:
                    # user-defined subclasses of the event classes are events, too
                    ev = (DelayedEvent if uid % 3 else Shipment)("pong", self.id, rcv, delay, data=uid)
                m.log.append(("sent", self.id, rcv, uid, k, delay))
                m.enqueue_event(ev)
        # scripted population changes from inside act: script["act"][k] = {agent id: [ops]}
        for op in m.script.get("act", {}).get(str(k), {}).get(str(self.id), []):
            m.log.append(("op", "act", op, self.id))
            if op[0] == "create":
                m.create_agent(op[1], copy.deepcopy(op[2]) if len(op) > 2 else None)
            elif op[0] == "delete":
                m.delete_agent(op[1])
        # scripted state changes / property changes: script["state"][k] = {id: state}
        st = m.script.get("state", {}).get(str(k), {}).get(str(self.id))
        if st is not None:
            self.state = st
        # a property re-declared with another type: script["retype"][k] = {id: {name: {"type": .., "value": ..}}}
        for name, spec in (m.script.get("retype", {}).get(str(k), {}).get(str(self.id)) or {}).items():
            self.set_property(name, copy.deepcopy(spec))
        pv = m.script.get("prop", {}).get(str(k), {}).get(str(self.id))
        if pv is not None:
            for name, val in pv.items():
                self.set_property_value(name, val)


class LogModel(Model):
    """script: dict(begin={k: [ops]}, end={k: [ops]}, send={k: [...]}, state={k: {id: state}})
    ops: ["create", type, props] | ["delete", id] | ["configure", [specs]] | ["reset"]"""

    def instantiate_model(self):
        if "log" not in self.__dict__:
            self.log = []
            self.script = {}
            self.step_counter = -1
        self.register_agent_factory("a", lambda i, mod, p: LogAgent(i, mod, p, "a"))
        self.register_agent_factory("b", lambda i, mod, p: LogAgent(i, mod, p, "b"))
        if isinstance(self.data_collector, LogCollector):
            self.data_collector.log = self.log

    def _ops(self, phase):
        for op in self.script.get(phase, {}).get(str(self.step_counter), []):
            self.log.append(("op", phase, op))
            if op[0] == "create":
                self.create_agent(op[1], copy.deepcopy(op[2]) if len(op) > 2 else None)
            elif op[0] == "delete":
                self.delete_agent(op[1])
            elif op[0] == "configure":
                self.configure_agents(copy.deepcopy(op[1]))
            elif op[0] == "reset_agents":
                # reset() also clears statistics; for event routing only the population matters
                for t in self.agent_type_map:
                    self.agent_type_map[t] = []
                self.agents = []

    def _sends(self, phase):
        # events sent by the model's own callbacks: script["send_begin" | "send_end"][k] = [(sender id, receiver id, delay or None, uid), ...]
        for (snd, rcv, delay, uid) in self.script.get("send_" + phase, {}).get(str(self.step_counter), []):
            ev = Event("ping", snd, rcv, data=uid) if delay is None else DelayedEvent("pong", snd, rcv, delay, data=uid)
            self.log.append(("sent", snd, rcv, uid, self.step_counter, delay))
            self.enqueue_event(ev)

    def begin_round(self, time, sim_round, step):
        self.step_counter += 1
        # where the scheduler says the run is, as agent / model code would read it inside a callback
        sch = self.scheduler
        if not hasattr(self, "positions"):
            self.positions = []
        self.positions.append((time, sim_round, step, getattr(sch, "current_time", None), getattr(sch, "current_round", None), getattr(sch, "current_step", None), getattr(sch, "progress", None)))
        self.log.append(("begin", time, sim_round, step, self.step_counter))
        self._ops("begin")
        self._sends("begin")
        self.log.append(("agents", [a.id for a in self.agents], [getattr(a, "token", None) for a in self.agents]))

    def end_round(self, time, sim_round, step):
        self.log.append(("end", time, sim_round, step))
        self._ops("end")
        self._sends("end")
        # the population as the model itself sees it when the step's statistics are due
        self.log.append(("population", time, [(a.id, a.agent_type, a.state, copy.deepcopy(a.properties)) for a in self.agents]))


def new_model(start, stop, dt, name="abm", script=None, agents=None):
    m = LogModel(name=name, scheduler=SimultaneousScheduler(), data_collector=LogCollector())
    m.instantiate_model()
    m.script = script or {}
    m.run_specs(start, stop, dt)
    if agents:
        m.configure_agents(copy.deepcopy(agents))
    return m


def position_witness(model):
    """The scheduler's own position (current_time / current_round / current_step / progress) as read inside begin_round must be the
    step that is being executed, however the step was started (whole run, Model.run_step, bptk session)."""
    stop = model.stoptime
    for (time, r, s_, ct, cr, cs, pr) in getattr(model, "positions", []):
        exp_p = (time / stop) if stop != 0 else 1.0
        if ct is None or abs(ct - time) > 1e-9 or cr != r or cs != s_ or pr is None or abs(pr - exp_p) > 1e-9:
            return dict(kind="scheduler-position", step=(r, s_, time), current_time=ct, current_round=cr, current_step=cs, progress=pr, expected_progress=exp_p)
    return None
